(** C03: the CSR form, the dense/odeint assignments and the pattern all describe
    the same set of (row, column, value) triples; well-formedness and bounds. *)
From Coq Require Import List Arith Bool Lia Sorted.
From Naunet Require Import Lib.ListX Model.OdeGen.
Import ListNotations.

Section Csr.
Context {X : Type}.
Variable zero : X -> bool.
Variable dflt : X.

(** specification: the stored entries of one row, left to right *)
Definition ent (n : nat) (jac : list X) (row : nat) (cols : list nat) : list (nat * X) :=
  flat_map (fun col => let e := nth (row * n + col) jac dflt in
                       if zero e then [] else [(col, e)]) cols.

Definition row_ent (n : nat) (jac : list X) (row : nat) := ent n jac row (seq 0 n).

Fixpoint psums (a : nat) (ls : list nat) : list nat :=
  match ls with [] => [] | l :: r => a :: psums (a + l) r end.

Lemma inner_fold n row jac cols : forall c,
  fold_left (csr_col zero dflt n row jac) cols c
  = {| c_rptr := c_rptr c;
       c_cols := c_cols c ++ map fst (ent n jac row cols);
       c_vals := c_vals c ++ map snd (ent n jac row cols);
       c_nnz := c_nnz c + List.length (ent n jac row cols) |}.
Proof.
  induction cols as [|col cols IH]; intro c; simpl.
  - rewrite !app_nil_r, Nat.add_0_r. destruct c; auto.
  - rewrite IH. unfold csr_col, ent. simpl.
    destruct (zero (nth (row * n + col) jac dflt)); simpl; auto.
    rewrite <- !app_assoc. simpl. f_equal. lia.
Qed.

Definition rows_ent (n : nat) (jac : list X) (rows : list nat) : list (list (nat * X)) :=
  map (row_ent n jac) rows.

Lemma outer_fold n jac rows : forall c,
  fold_left (csr_row zero dflt n jac) rows c
  = {| c_rptr := c_rptr c ++ psums (c_nnz c) (map (@List.length _) (rows_ent n jac rows));
       c_cols := c_cols c ++ concat (map (map fst) (rows_ent n jac rows));
       c_vals := c_vals c ++ concat (map (map snd) (rows_ent n jac rows));
       c_nnz := c_nnz c + List.length (concat (rows_ent n jac rows)) |}.
Proof.
  induction rows as [|row rows IH]; intro c; simpl.
  - rewrite !app_nil_r, Nat.add_0_r. destruct c; auto.
  - rewrite IH. unfold csr_row. rewrite inner_fold. simpl. fold (row_ent n jac row).
    rewrite <- !app_assoc, app_length. simpl. f_equal. lia.
Qed.

Theorem csr_spec n jac :
  let re := rows_ent n jac (seq 0 n) in
  csr zero dflt n jac
  = {| c_rptr := psums 0 (map (@List.length _) re) ++ [List.length (concat re)];
       c_cols := concat (map (map fst) re);
       c_vals := concat (map (map snd) re);
       c_nnz := List.length (concat re) |}.
Proof. intro re. unfold csr. rewrite outer_fold. simpl. auto. Qed.

(** row pointers *)
Lemma psums_length a ls : List.length (psums a ls) = List.length ls.
Proof. revert a. induction ls as [|l ls IH]; intro a; simpl; auto. Qed.

Lemma concat_length_sum {Y} (ls : list (list Y)) :
  List.length (concat ls) = sum_nat (map (@List.length _) ls).
Proof. induction ls; simpl; auto. rewrite app_length, IHls. auto. Qed.

Definition full_rptr (a : nat) (ls : list nat) : list nat := psums a ls ++ [a + sum_nat ls].

Lemma full_rptr_cons a l ls : full_rptr a (l :: ls) = a :: full_rptr (a + l) ls.
Proof. unfold full_rptr, sum_nat. simpl. f_equal. f_equal. f_equal. lia. Qed.

Lemma full_rptr_sorted a ls : StronglySorted le (full_rptr a ls) /\ Forall (fun x => a <= x) (full_rptr a ls).
Proof.
  revert a. induction ls as [|l ls IH]; intro a.
  - unfold full_rptr. simpl. split; repeat constructor. lia.
  - rewrite full_rptr_cons. destruct (IH (a + l)) as [H1 H2]. split.
    + constructor; auto. eapply Forall_impl; [|exact H2]. simpl. intros. lia.
    + constructor; auto. eapply Forall_impl; [|exact H2]. simpl. intros. lia.
Qed.

Theorem csr_rowptr n jac :
  let c := csr zero dflt n jac in
  List.length (c_rptr c) = S n /\ hd 1 (c_rptr c) = 0 /\ last (c_rptr c) 1 = c_nnz c /\
  StronglySorted le (c_rptr c) /\
  c_nnz c = List.length (c_cols c) /\ c_nnz c = List.length (c_vals c).
Proof.
  intro c. subst c. rewrite csr_spec. simpl.
  set (re := rows_ent n jac (seq 0 n)).
  assert (Hlen : List.length re = n) by (unfold re, rows_ent; rewrite map_length, seq_length; auto).
  repeat split.
  - rewrite app_length, psums_length, map_length, Hlen. simpl. lia.
  - destruct re; simpl; auto.
  - apply last_last.
  - pose proof (full_rptr_sorted 0 (map (@List.length _) re)) as [H _].
    unfold full_rptr in H. simpl in H. rewrite <- concat_length_sum in H. auto.
  - rewrite !concat_length_sum, !map_map. f_equal. apply map_ext. intro. rewrite map_length. auto.
  - rewrite !concat_length_sum, !map_map. f_equal. apply map_ext. intro. rewrite map_length. auto.
Qed.

(** columns of one row: strictly increasing and in range *)
Lemma ent_cols_sorted n jac row cols :
  StronglySorted lt cols -> StronglySorted lt (map fst (ent n jac row cols)) /\
  incl (map fst (ent n jac row cols)) cols.
Proof.
  induction 1 as [|col cols Hs IH Hc]; simpl.
  - split. constructor. apply incl_refl.
  - destruct IH as [I1 I2]. unfold ent. simpl. fold (ent n jac row cols).
    destruct (zero (nth (row * n + col) jac dflt)); simpl.
    + split; auto. apply incl_tl; auto.
    + split.
      * constructor; auto. apply Forall_forall. intros x Hx. apply I2 in Hx.
        rewrite Forall_forall in Hc. auto.
      * apply incl_cons; simpl; auto. apply incl_tl; auto.
Qed.

Lemma seq_sorted a n : StronglySorted lt (seq a n).
Proof.
  revert a. induction n; intro a; simpl; constructor; auto.
  apply Forall_forall. intros x Hx. apply in_seq in Hx. lia.
Qed.

Theorem row_cols_ok n jac row :
  StronglySorted lt (map fst (row_ent n jac row)) /\ Forall (fun c => c < n) (map fst (row_ent n jac row)).
Proof.
  destruct (ent_cols_sorted n jac row (seq 0 n) (seq_sorted 0 n)) as [H1 H2]. split; auto.
  apply Forall_forall. intros c Hc. apply H2 in Hc. apply in_seq in Hc. lia.
Qed.

(** the triples a CSR matrix stores *)
Definition spec_triples_from (r0 : nat) (re : list (list (nat * X))) : list (nat * nat * X) :=
  concat (map (fun p : nat * list (nat * X) =>
                 map (fun cv : nat * X => (fst p, fst cv, snd cv)) (snd p))
              (enumerate_from r0 re)).

Lemma combine_fst_snd {A B} (l : list (A * B)) : combine (map fst l) (map snd l) = l.
Proof. induction l as [|[a b] l IH]; simpl; auto. rewrite IH. auto. Qed.

Lemma csr_triples_rows_step row a b rest (cols : list nat) (vals : list X) :
  csr_triples_rows row (a :: b :: rest) cols vals
  = map (fun cv : nat * X => (row, fst cv, snd cv)) (combine (firstn (b - a) cols) (firstn (b - a) vals))
    ++ csr_triples_rows (S row) (b :: rest) (skipn (b - a) cols) (skipn (b - a) vals).
Proof. reflexivity. Qed.

Lemma triples_rows re : forall r0 a,
  csr_triples_rows r0 (full_rptr a (map (@List.length _) re))
                   (concat (map (map fst) re)) (concat (map (map snd) re))
  = spec_triples_from r0 re.
Proof.
  induction re as [|l re IH]; intros r0 a.
  - unfold full_rptr. simpl. auto.
  - cbn [map]. rewrite full_rptr_cons.
    destruct (full_rptr (a + List.length l) (map (@List.length _) re)) as [|b rest] eqn:E.
    { unfold full_rptr in E. exfalso. destruct (psums (a + List.length l) (map (@List.length _) re)); discriminate. }
    assert (b = a + List.length l) as Hb.
    { destruct re; unfold full_rptr in E; simpl in E; injection E; intros; lia. }
    rewrite csr_triples_rows_step, <- E. subst b.
    replace (a + List.length l - a) with (List.length l) by lia.
    cbn [concat]. 
    rewrite !firstn_app, !skipn_app, !map_length, Nat.sub_diag. simpl.
    rewrite !firstn_all2, !skipn_all2 by (rewrite map_length; lia).
    rewrite !app_nil_r. simpl. rewrite combine_fst_snd, IH.
    unfold spec_triples_from. simpl. auto.
Qed.

Definition spec_triples (n : nat) (jac : list X) : list (nat * nat * X) :=
  spec_triples_from 0 (rows_ent n jac (seq 0 n)).

Theorem csr_triples_spec n jac : csr_triples (csr zero dflt n jac) = spec_triples n jac.
Proof.
  unfold csr_triples. rewrite csr_spec. simpl.
  set (re := rows_ent n jac (seq 0 n)).
  pose proof (triples_rows re 0 0) as H. unfold full_rptr in H at 1. simpl in H.
  rewrite <- concat_length_sum in H. exact H.
Qed.

(** the dense / odeint assignment list *)
Lemma seq_shift_map a n : seq a n = map (fun c => a + c) (seq 0 n).
Proof.
  revert a. induction n; intro a; simpl; auto. f_equal. lia.
  rewrite (IHn (S a)), <- seq_shift, map_map. apply map_ext. intro. lia.
Qed.

Lemma seq_grid m n :
  seq 0 (m * n) = flat_map (fun row => map (fun col => row * n + col) (seq 0 n)) (seq 0 m).
Proof.
  induction m as [|m IHm]; [reflexivity|].
  rewrite seq_S, flat_map_app. cbn [flat_map]. rewrite app_nil_r, <- IHm.
  replace (S m * n) with (m * n + n) by lia.
  rewrite seq_app. f_equal. apply seq_shift_map.
Qed.

Lemma enumerate_from_seq {Y} (l : list Y) d a :
  enumerate_from a l = map (fun i => (i, nth (i - a) l d)) (seq a (List.length l)).
Proof.
  revert a. induction l as [|x l IH]; intro a; simpl; auto.
  rewrite Nat.sub_diag. f_equal. rewrite IH. apply map_ext_in. intros i Hi.
  apply in_seq in Hi. replace (i - a) with (S (i - S a)) by lia. auto.
Qed.

Lemma flat_map_map' {A B C} (f : B -> list C) (g : A -> B) l :
  flat_map f (map g l) = flat_map (fun x => f (g x)) l.
Proof. induction l; simpl; auto. rewrite IHl. auto. Qed.

Lemma flat_map_flat_map {A B C} (f : B -> list C) (g : A -> list B) l :
  flat_map f (flat_map g l) = flat_map (fun x => flat_map f (g x)) l.
Proof. induction l; simpl; auto. rewrite flat_map_app, IHl. auto. Qed.

Lemma flat_map_ext_in' {A B} (f g : A -> list B) l :
  (forall x, In x l -> f x = g x) -> flat_map f l = flat_map g l.
Proof.
  induction l as [|a l IH]; simpl; intro H; auto. rewrite H, IH; auto.
Qed.

Lemma flat_map_concat_map {A B} (f : A -> list B) l : flat_map f l = concat (map f l).
Proof. apply flat_map_concat_map. Qed.

Lemma enumerate_from_map {A B} (f : nat -> B) (g : A -> B) a l :
  (forall i x, nth_error l i = Some x -> f (a + i) = g x) -> True.
Proof. auto. Qed.

Lemma spec_triples_from_seq n jac : forall rows r0,
  rows = seq r0 (List.length rows) ->
  spec_triples_from r0 (rows_ent n jac rows)
  = flat_map (fun row => map (fun cv : nat * X => (row, fst cv, snd cv)) (row_ent n jac row)) rows.
Proof.
  induction rows as [|row rows IH]; intros r0 H; simpl; auto.
  unfold spec_triples_from in *. simpl. simpl in H. injection H as -> Hr.
  f_equal. rewrite (IH (S r0)); auto.
Qed.

Theorem dense_assign_spec n jac : List.length jac = n * n ->
  dense_assign zero n jac = spec_triples n jac.
Proof.
  intro Hlen. unfold spec_triples.
  rewrite spec_triples_from_seq by (rewrite seq_length; auto).
  unfold dense_assign, enumerate. rewrite (enumerate_from_seq jac dflt 0), Hlen, seq_grid.
  rewrite flat_map_map', flat_map_flat_map.
  apply flat_map_ext_in'. intros row Hrow. apply in_seq in Hrow.
  rewrite flat_map_map'. unfold row_ent, ent. cbn [fst snd].
  assert (Hall : Forall (fun c => c < n) (seq 0 n)).
  { apply Forall_forall. intros c Hc. apply in_seq in Hc. lia. }
  induction Hall as [|col cols Hc Hcs IHc]; [reflexivity|].
  cbn [flat_map]. rewrite map_app, <- IHc, Nat.sub_0_r.
  destruct (zero (nth (row * n + col) jac dflt)); [reflexivity|].
  cbn [map app]. do 2 f_equal.
  rewrite Nat.div_add_l, Nat.div_small, Nat.add_0_r by lia.
  rewrite Nat.add_comm, Nat.mod_add, Nat.mod_small by lia. reflexivity.
Qed.

(** all three layouts store the same (row, column, value) triples in the same order *)
Theorem layouts_agree n jac : List.length jac = n * n ->
  csr_triples (csr zero dflt n jac) = dense_assign zero n jac.
Proof. intro H. rewrite csr_triples_spec, dense_assign_spec; auto. Qed.

(** every stored triple is an in-range non-zero entry of the matrix, and conversely *)
Theorem spec_triples_in n jac r c x :
  In (r, c, x) (spec_triples n jac) <->
  r < n /\ c < n /\ x = nth (r * n + c) jac dflt /\ zero x = false.
Proof.
  unfold spec_triples. rewrite spec_triples_from_seq by (rewrite seq_length; auto).
  rewrite in_flat_map. split.
  - intros (row & Hrow & Hin). apply in_seq in Hrow. apply in_map_iff in Hin.
    destruct Hin as ([c' x'] & Heq & Hin). inversion Heq; subst. simpl in *.
    unfold row_ent, ent in Hin. apply in_flat_map in Hin. destruct Hin as (col & Hcol & Hin).
    apply in_seq in Hcol. simpl in Hin.
    destruct (zero (nth (r * n + col) jac dflt)) eqn:Z; [destruct Hin|].
    destruct Hin as [Hin|[]]. inversion Hin; subst. repeat split; auto; lia.
  - intros (Hr & Hc & -> & Hz). exists r. split. apply in_seq; lia.
    apply in_map_iff. exists (c, nth (r * n + c) jac dflt). split; auto.
    unfold row_ent, ent. apply in_flat_map. exists c. split. apply in_seq; lia.
    simpl. rewrite Hz. simpl; auto.
Qed.

Lemma nth_firstn_lt {Y} (l : list Y) n i d : i < n -> nth i (firstn n l) d = nth i l d.
Proof.
  revert n i. induction l as [|x l IH]; intros [|n] [|i] H; simpl; auto; try lia.
  apply IH. lia.
Qed.
Lemma nth_skipn_add {Y} (l : list Y) k i d : nth i (skipn k l) d = nth (k + i) l d.
Proof.
  revert l. induction k as [|k IH]; intro l; simpl; auto.
  destruct l; simpl; auto. destruct i; auto.
Qed.

(** the pattern file marks exactly the stored entries *)
Theorem pattern_spec n jac row col : List.length jac = n * n -> row < n -> col < n ->
  nth col (nth row (pattern zero n jac) []) true = negb (zero (nth (row * n + col) jac dflt)).
Proof.
  intros Hlen Hr Hc. unfold pattern.
  rewrite (nth_indep _ [] (map (fun x => negb (zero x)) (firstn n (skipn (0 * n) jac)))).
  2:{ rewrite map_length, seq_length. auto. }
  rewrite (map_nth (fun row => map (fun x => negb (zero x)) (firstn n (skipn (row * n) jac))) (seq 0 n) 0 row).
  rewrite seq_nth by auto. simpl.
  rewrite (nth_indep _ true (negb (zero dflt))).
  2:{ rewrite map_length, firstn_length, skipn_length, Hlen. nia. }
  rewrite (map_nth (fun x => negb (zero x))). f_equal. f_equal.
  rewrite nth_firstn_lt by auto. rewrite nth_skipn_add. auto.
Qed.

End Csr.

Section More.
Context {X : Type}.
Variable zero : X -> bool.
Variable dflt : X.
Lemma dense_in : forall n (jac : list X) r c x, List.length jac = n * n ->
  (In (r, c, x) (dense_assign zero n jac) <->
   r < n /\ c < n /\ x = nth (r * n + c) jac dflt /\ zero x = false).
Proof.
  intros n jac r c x H. rewrite (dense_assign_spec zero dflt n jac H).
  apply spec_triples_in.
Qed.
End More.

From Naunet Require Import Proofs.OdeRefine Proofs.OdeSem.

Lemma apply_adds_vars n (a : adds) : forall v,
  Forall (fun e => Forall (fun t => Forall (fun x => x < n) (t_vars t)) e) v ->
  Forall (fun pt : nat * term => Forall (fun x => x < n) (t_vars (snd pt))) a ->
  Forall (fun e => Forall (fun t => Forall (fun x => x < n) (t_vars t)) e) (apply_adds a v).
Proof.
  induction a as [|[p t] a IH]; intros v Hv Ha; simpl; auto.
  inversion Ha; subst. apply IH; auto. simpl in *.
  unfold add_at. clear IH Ha H2. revert p. induction Hv as [|e v He Hv IHv]; intros [|p]; simpl; auto.
  constructor; auto. apply Forall_app. split; auto.
Qed.

Lemma remove1_incl j l x : In x (remove1 Nat.eqb j l) -> In x l.
Proof.
  induction l as [|a l IH]; simpl; auto. destruct (Nat.eqb j a); simpl; intuition.
Qed.

Lemma generated_shape_lemma : forall i : ode_input, wf_input i ->
  1 <= n_eqns i /\
  List.length (st_rhs (ode_terms i)) = n_eqns i /\
  List.length (st_jac (ode_terms i)) = n_eqns i * n_eqns i /\
  Forall (fun e => Forall (fun t => Forall (fun v => v < i_nspec i) (t_vars t)) e)
         (st_rhs (ode_terms i) ++ st_jac (ode_terms i)).
Proof.
  intros i H. destruct (ode_terms_adds i) as [-> ->].
  destruct (rhs_adds_range i H) as [Hr Hv].
  split. { unfold n_eqns. lia. }
  rewrite !apply_adds_length, !repeat_length. repeat split; auto.
  apply Forall_app. split; apply apply_adds_vars.
  - apply Forall_forall. intros e He. apply repeat_spec in He. subst. constructor.
  - exact Hv.
  - apply Forall_forall. intros e He. apply repeat_spec in He. subst. constructor.
  - unfold jac_of. apply Forall_forall. intros [p t] Hin.
    apply in_flat_map in Hin. destruct Hin as ([q u] & Hq & Hin).
    apply in_map_iff in Hin. destruct Hin as (ri & Heq & Hri). inversion Heq; subst. simpl.
    unfold vars_ok in Hv. rewrite Forall_forall in Hv. specialize (Hv _ Hq). simpl in Hv.
    unfold idx_ok in Hv. rewrite Forall_forall in *. intros x Hx. apply Hv.
    eapply remove1_incl; eauto.
Qed.

Lemma empty_network_csr_lemma :
  let i := {| i_nspec := 0; i_rxns := []; i_mods := []; i_heat := []; i_cool := [] |} in
  n_eqns i = 1 /\
  csr is_zero [] (n_eqns i) (st_jac (ode_terms i))
  = {| c_rptr := [0; 0]; c_cols := []; c_vals := []; c_nnz := 0 |}.
Proof. split; vm_compute; reflexivity. Qed.
