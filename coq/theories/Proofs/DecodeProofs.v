(** C07: lemmas about the reaction-file decoders. *)
From Coq Require Import List Arith Bool String Ascii ZArith Lia.
From Naunet Require Import Lib.ListX Lib.PyStr Model.Decode Proofs.SpeciesProofs Proofs.IndexProofs.
Import ListNotations.
Open Scope string_scope.

(** ** the pseudo-species filter *)
Lemma memb_In_str n l : memb String.eqb n l = true <-> In n l.
Proof.
  induction l as [|a l IH]; simpl. split; [discriminate | tauto].
  rewrite orb_true_iff, IH, String.eqb_eq. intuition.
Qed.

Definition real_name (pseudo : list string) (n : string) : Prop := n <> "" /\ ~ In n pseudo.

Lemma keep_name_spec pseudo n : keep_name pseudo n = true <-> real_name pseudo n.
Proof.
  unfold keep_name, real_name. rewrite andb_true_iff, !negb_true_iff. split.
  - intros [H1 H2]. split. intro E; subst; discriminate.
    intro Hin. apply memb_In_str in Hin. congruence.
  - intros [H1 H2]. split. apply String.eqb_neq; auto.
    apply not_true_is_false. intro E. apply memb_In_str in E. auto.
Qed.

Lemma species_names_real pseudo l : Forall (real_name pseudo) (species_names pseudo l).
Proof.
  apply Forall_forall. intros n Hn. apply filter_In in Hn. apply keep_name_spec. tauto.
Qed.

(* exactly the names that are neither empty nor a marker survive, in order, with multiplicity *)
Lemma species_names_all_real pseudo l : Forall (real_name pseudo) l -> species_names pseudo l = l.
Proof.
  induction 1 as [|n l Hn _ IH]; simpl; auto. apply keep_name_spec in Hn. rewrite Hn, IH. reflexivity.
Qed.

Definition names_ok (pseudo : list string) (d : dec) : Prop :=
  Forall (real_name pseudo) (d_reac d) /\ Forall (real_name pseudo) (d_prod d).

Lemma krome_fields_names pseudo kv : forall d, names_ok pseudo d -> names_ok pseudo (krome_fields pseudo kv d).
Proof.
  induction kv as [|[k v] r IH]; intros d [Hr Hp]; simpl. split; auto.
  apply IH.
  destruct (String.eqb v ""). split; auto.
  destruct (String.eqb k "idx"). split; auto.
  destruct (String.eqb k "r" && keep_name pseudo v) eqn:E1.
  { apply andb_true_iff in E1. destruct E1 as [_ E1]. apply keep_name_spec in E1.
    split; simpl; auto. apply Forall_app. split; auto. }
  destruct (String.eqb k "p" && keep_name pseudo v) eqn:E2.
  { apply andb_true_iff in E2. destruct E2 as [_ E2]. apply keep_name_spec in E2.
    split; simpl; auto. apply Forall_app. split; auto. }
  destruct (String.eqb k "tmin"). split; auto.
  destruct (String.eqb k "tmax"). split; auto.
  destruct (String.eqb k "rate"); split; auto.
Qed.

Lemma decode_names_lemma F f st line st' d :
  factory F f st line = (st', Some (inr d)) -> names_ok (ft_pseudo F) d.
Proof.
  unfold factory. destruct (match f with FKrome => krome_pre st line | _ => (st, line) end) as [s1 text].
  destruct (String.eqb text "" || String.eqb (strip text) ""); [discriminate|].
  intro H. injection H as _ H. revert H. destruct f.
  - unfold decode_kida.
    destruct (split_ws (sfrom (strip text) 90)) as [|x0 [|x1 [|x2 [|x3 [|x4 [|x5 [|x6 [|x7 [|x8 [|x9 [|x10 [|x11 [|x12 [|x13 l]]]]]]]]]]]]]];
      try discriminate. intro H; injection H as <-. split; apply species_names_real.
  - unfold decode_umist.
    destruct (firstn 14 (split_on ":" (strip text))) as [|idx [|code rest]]; try discriminate.
    destruct (Nat.ltb (List.length rest) 6); try discriminate.
    destruct (skipn (List.length rest - 6) rest) as [|y0 [|y1 [|y2 [|y3 [|y4 [|y5 [|y6 l]]]]]]]; try discriminate.
    intro H; injection H as <-. split; apply species_names_real.
  - unfold decode_leeds. intro H; injection H as <-. split; apply species_names_real.
  - unfold decode_uclchem.
    destruct (Nat.ltb (List.length (split_on "," text)) 5); try discriminate.
    destruct (skipn (List.length (split_on "," text) - 5) (split_on "," text)) as [|y0 [|y1 [|y2 [|y3 [|y4 [|y5 l]]]]]];
      try discriminate;
    destruct (nth_error (firstn (List.length (split_on "," text) - 5) (split_on "," text)) 1); try discriminate.
    intro H; injection H as <-. split; apply species_names_real.
  - unfold decode_krome. intro H; injection H as <-. apply krome_fields_names. split; constructor.
  - unfold decode_native.
    destruct (split_on "," text) as [|idx rest]; try discriminate.
    destruct (Nat.ltb (List.length rest) 7); try discriminate.
    destruct (skipn (List.length rest - 7) rest) as [|y0 [|y1 [|y2 [|y3 [|y4 [|y5 [|y6 [|y7 l]]]]]]]]; try discriminate.
    intro H; injection H as <-. split; apply species_names_real.
Qed.

(** ** lines that carry no data add no reaction *)
Lemma blank_none_lemma F f st line : strip line = "" -> snd (factory F f st line) = None.
Proof.
  intro Hb. unfold factory. destruct f; simpl; try (rewrite Hb; simpl; rewrite orb_true_r; reflexivity).
  unfold krome_pre.
  destruct (sstarts "#" line || sstarts "//" line); simpl; auto.
  destruct (sstarts "@format:" line); simpl; auto.
  destruct (sstarts "@var" line); simpl. destruct (scontains "Hnuclei" line); auto.
  destruct (sstarts "@common:" line); simpl; auto.
  rewrite Hb. simpl. reflexivity.
Qed.

Lemma krome_nondata_none_lemma F st line :
  sstarts "#" line = true \/ sstarts "//" line = true \/ sstarts "@format:" line = true \/
  sstarts "@var" line = true \/ sstarts "@common:" line = true ->
  snd (factory F FKrome st line) = None.
Proof.
  intro H. unfold factory, krome_pre.
  destruct (sstarts "#" line); simpl; auto.
  destruct (sstarts "//" line); simpl; auto.
  destruct (sstarts "@format:" line); simpl; auto.
  destruct (sstarts "@var" line); simpl. destruct (scontains "Hnuclei" line); auto.
  destruct (sstarts "@common:" line); simpl; auto.
  destruct H as [H|[H|[H|[H|H]]]]; discriminate.
Qed.

(** ** one reaction per data line, in file order *)
Definition line_result (F : ftables) (f : fmt) (l : string) : list (derr + dec) :=
  match snd (factory F f kstate0 l) with Some d => [d] | None => [] end.

Lemma read_lines_stateless F f : f <> FKrome -> forall lines st,
  read_lines F f st lines = flat_map (line_result F f) lines.
Proof.
  intros Hf. induction lines as [|l r IH]; intro st; simpl; auto.
  unfold line_result at 1.
  assert (forall s, factory F f s l = (s, snd (factory F f kstate0 l))) as Hs.
  { intro s. unfold factory. destruct f; try congruence;
    destruct (String.eqb l "" || String.eqb (strip l) ""); reflexivity. }
  rewrite (Hs st). destruct (snd (factory F f kstate0 l)); simpl; rewrite IH; reflexivity.
Qed.

(** ** str.split(sep) undoes sep.join when no field holds the separator *)
Local Open Scope list_scope.

Definition no_char (c : ascii) (w : list ascii) : Prop := ~ In c w.

Lemma split_on_go_word sep w : no_char sep w -> forall rest cur,
  split_on_go sep (w ++ rest) cur = split_on_go sep rest (rev w ++ cur).
Proof.
  induction w as [|a w IH]; intros Hn rest cur; simpl; auto.
  destruct (Ascii.eqb_spec a sep) as [->|Hne]. { exfalso. apply Hn. simpl; auto. }
  rewrite IH. rewrite <- app_assoc. reflexivity. intro Hin. apply Hn. simpl; auto.
Qed.

Lemma split_on_go_join sep fs : fs <> [] -> Forall (no_char sep) fs -> forall cur,
  split_on_go sep (join_l sep fs) cur =
  match fs with f :: r => (rev cur ++ f) :: r | [] => [] end.
Proof.
  induction fs as [|f r IH]; intros Hne Hall cur. congruence.
  inversion Hall as [|? ? Hf Hr]; subst. destruct r as [|g r'].
  - simpl. rewrite <- (app_nil_r f) at 1. rewrite split_on_go_word by auto. simpl.
    rewrite rev_app_distr, rev_involutive. reflexivity.
  - change (join_l sep (f :: g :: r')) with (f ++ sep :: join_l sep (g :: r')).
    rewrite split_on_go_word by auto. simpl. rewrite Ascii.eqb_refl.
    rewrite rev_app_distr, rev_involutive. f_equal.
    rewrite IH by (auto; discriminate). simpl. reflexivity.
Qed.

Lemma str_chars s : str (chars s) = s.
Proof. apply string_of_list_ascii_of_string. Qed.

Lemma split_on_join sep fs : fs <> [] -> Forall (fun f => no_char sep (chars f)) fs ->
  split_on sep (join sep fs) = fs.
Proof.
  intros Hne Hall. unfold split_on, join. rewrite chars_str.
  rewrite split_on_go_join.
  - destruct fs as [|f r]; [congruence|]. simpl. rewrite str_chars. f_equal.
    rewrite map_map. rewrite <- (map_id r) at 2. apply map_ext. intro a. apply str_chars.
  - destruct fs; [congruence | discriminate].
  - apply Forall_forall. intros w Hw. apply in_map_iff in Hw. destruct Hw as (f & <- & Hf).
    rewrite Forall_forall in Hall. auto.
Qed.

(** ** str.strip() *)
Definition edge_ok (l : list ascii) : bool :=
  match l with c :: _ => negb (is_space c) | [] => false end &&
  match rev l with d :: _ => negb (is_space d) | [] => false end.

Lemma lstrip_edge l : edge_ok l = true -> lstrip_l l = l.
Proof.
  unfold edge_ok. destruct l as [|c r]; simpl. discriminate.
  intro H. apply andb_true_iff in H. destruct H as [H _]. apply negb_true_iff in H. rewrite H. reflexivity.
Qed.
Lemma rstrip_edge l : edge_ok l = true -> rstrip_l l = l.
Proof.
  unfold edge_ok, rstrip_l. intro H. apply andb_true_iff in H. destruct H as [_ H].
  destruct (rev l) as [|d r] eqn:E. discriminate. simpl. apply negb_true_iff in H. rewrite H.
  rewrite <- E. apply rev_involutive.
Qed.
Lemma strip_edge l : edge_ok l = true -> strip_l l = l.
Proof. intro H. unfold strip_l. rewrite lstrip_edge by auto. apply rstrip_edge; auto. Qed.

Lemma lstrip_spaces k l : lstrip_l (repeat_char " "%char k ++ l) = lstrip_l l.
Proof. induction k; simpl; auto. Qed.

Lemma rstrip_spaces_after l ws : forallb is_space ws = true -> rstrip_l (l ++ ws) = rstrip_l l.
Proof.
  intro H. unfold rstrip_l. rewrite rev_app_distr. f_equal.
  assert (forallb is_space (rev ws) = true) as H'.
  { rewrite forallb_forall in *. intros x Hx. apply H. apply in_rev. exact Hx. }
  clear H. induction (rev ws) as [|a r IH]; simpl; auto.
  simpl in H'. apply andb_true_iff in H'. destruct H' as [Ha Hr]. rewrite Ha. auto.
Qed.

(* a padded, newline-terminated field strips back to the field *)
Lemma strip_padded k l ws : edge_ok l = true -> forallb is_space ws = true ->
  strip_l (repeat_char " "%char k ++ l ++ ws) = l.
Proof.
  intros Hl Hws. unfold strip_l. rewrite lstrip_spaces.
  assert (lstrip_l (l ++ ws) = l ++ ws) as ->.
  { destruct l as [|c r]; [discriminate|]. unfold edge_ok in Hl. simpl in Hl.
    apply andb_true_iff in Hl. destruct Hl as [Hc _]. apply negb_true_iff in Hc. simpl. rewrite Hc. reflexivity. }
  rewrite rstrip_spaces_after by auto. apply rstrip_edge; auto.
Qed.

Lemma strip_blank ws : forallb is_space ws = true -> strip_l ws = [].
Proof.
  intro H. unfold strip_l.
  assert (lstrip_l ws = []) as ->.
  { induction ws as [|a r IH]; simpl; auto. simpl in H. apply andb_true_iff in H. destruct H as [Ha Hr].
    rewrite Ha. auto. }
  reflexivity.
Qed.

(** ** round trips of the separator-based formats *)
Definition nosep (sep : ascii) (f : string) : Prop := no_char sep (chars f).

Lemma strip_line enc ws : edge_ok (chars enc) = true -> forallb is_space (chars ws) = true ->
  strip (enc ++ ws)%string = enc.
Proof.
  intros He Hw. unfold strip. rewrite chars_app.
  pose proof (strip_padded 0 (chars enc) (chars ws) He Hw) as H. simpl in H. rewrite H. apply str_chars.
Qed.

Definition encode_umist (idx code r1 r2 p1 p2 p3 p4 ne a b c lt ut : string) (extra : list string) : string :=
  join ":"%char ([idx; code; r1; r2; p1; p2; p3; p4; ne; a; b; c; lt; ut] ++ extra).

Lemma umist_roundtrip_lemma tbl pseudo idx code r1 r2 p1 p2 p3 p4 ne a b c lt ut extra ws :
  Forall (nosep ":"%char) ([idx; code; r1; r2; p1; p2; p3; p4; ne; a; b; c; lt; ut] ++ extra) ->
  edge_ok (chars (encode_umist idx code r1 r2 p1 p2 p3 p4 ne a b c lt ut extra)) = true ->
  forallb is_space (chars ws) = true ->
  decode_umist tbl pseudo (encode_umist idx code r1 r2 p1 p2 p3 p4 ne a b c lt ut extra ++ ws)%string =
  inr {| d_reac := species_names pseudo [r1; r2]; d_prod := species_names pseudo [p1; p2; p3; p4];
         d_alpha := a; d_beta := b; d_gamma := c; d_tmin := lt; d_tmax := ut; d_idx := idx;
         d_code := code; d_type := assoc_str code tbl; d_source := "umist"; d_rate := "" |}.
Proof.
  intros Hsep Hedge Hws. unfold decode_umist. rewrite strip_line by auto.
  unfold encode_umist. rewrite split_on_join; [| discriminate | exact Hsep].
  reflexivity.
Qed.

Definition pad (k : nat) (x : string) : string := str (repeat_char " "%char k ++ chars x).
Definition field_ok (x : string) : Prop := x = ""%string \/ edge_ok (chars x) = true.

Lemma strip_pad k x : field_ok x -> strip (pad k x) = x.
Proof.
  intros [->|H]; unfold strip, pad; rewrite chars_str.
  - simpl. rewrite app_nil_r. rewrite strip_blank. reflexivity.
    induction k; simpl; auto.
  - rewrite <- (app_nil_r (chars x)). rewrite (strip_padded k (chars x) [] H eq_refl). apply str_chars.
Qed.

Definition encode_native (idx R1 R2 R3 P1 P2 P3 P4 P5 a b c lt ut rtype source : string) : string :=
  join ","%char [idx; R1; R2; R3; P1; P2; P3; P4; P5; a; b; c; lt; ut; rtype; source].

Lemma native_roundtrip_lemma pseudo idx r1 r2 r3 p1 p2 p3 p4 p5 k1 k2 k3 k4 k5 k6 k7 k8 a b c lt ut rtype source :
  Forall (nosep ","%char)
    [idx; pad k1 r1; pad k2 r2; pad k3 r3; pad k4 p1; pad k5 p2; pad k6 p3; pad k7 p4; pad k8 p5; a; b; c; lt; ut; rtype; source] ->
  Forall field_ok [r1; r2; r3; p1; p2; p3; p4; p5] ->
  decode_native pseudo
    (encode_native idx (pad k1 r1) (pad k2 r2) (pad k3 r3) (pad k4 p1) (pad k5 p2) (pad k6 p3) (pad k7 p4) (pad k8 p5)
                   a b c lt ut rtype source) =
  inr {| d_reac := species_names pseudo [r1; r2; r3]; d_prod := species_names pseudo [p1; p2; p3; p4; p5];
         d_alpha := a; d_beta := b; d_gamma := c; d_tmin := lt; d_tmax := ut; d_idx := idx;
         d_code := rtype; d_type := small_int rtype; d_source := strip source; d_rate := "" |}.
Proof.
  intros Hsep Hok. unfold decode_native, encode_native.
  rewrite split_on_join; [| discriminate | exact Hsep].
  cbn [List.length Nat.ltb Nat.leb Nat.sub firstn skipn map].
  repeat match goal with H : Forall _ (_ :: _) |- _ => apply Forall_cons_iff in H; destruct H as [? H] end.
  rewrite !strip_pad by assumption. reflexivity.
Qed.

Definition encode_uclchem (r1 m r3 p1 p2 p3 p4 a b c lt ut : string) : string :=
  join ","%char [r1; m; r3; p1; p2; p3; p4; a; b; c; lt; ut].

Lemma uclchem_roundtrip_lemma tbl freeze ma pseudo r1 m r3 p1 p2 p3 p4 a b c lt ut :
  Forall (nosep ","%char) [r1; m; r3; p1; p2; p3; p4; a; b; c; lt; ut] ->
  let ty := match assoc_str m tbl with Some t => t | None => ma end in
  let kw := (map fst tbl ++ ["NAN"%string]) in
  let notkw := fun x => negb (memb String.eqb x kw) in
  decode_uclchem tbl freeze ma pseudo (encode_uclchem r1 m r3 p1 p2 p3 p4 a b c lt ut) =
  inr {| d_reac := species_names pseudo (filter notkw [r1; m; r3]);
         d_prod := species_names pseudo (filter notkw [p1; p2; p3; p4]);
         d_alpha := a; d_beta := b; d_gamma := c;
         d_tmin := if Z.eqb ty freeze then "0"%string else lt;
         d_tmax := if Z.eqb ty freeze then "30"%string else ut;
         d_idx := "-1"; d_code := m; d_type := Some ty; d_source := "uclchem"; d_rate := "" |}.
Proof.
  intros Hsep ty kw notkw. unfold decode_uclchem, encode_uclchem.
  rewrite split_on_join; [| discriminate | exact Hsep]. reflexivity.
Qed.

(** ** fixed-width columns *)
Fixpoint off (fs : list (list ascii)) (i : nat) : nat :=
  match i, fs with
  | O, _ => 0
  | S j, f :: r => List.length f + off r j
  | S _, [] => 0
  end.

Lemma slice_concat fs : forall i f, nth_error fs i = Some f ->
  slice (List.concat fs) (off fs i) (off fs i + List.length f) = f.
Proof.
  induction fs as [|g r IH]; intros [|i] f H; simpl in H; try discriminate.
  - injection H as ->. unfold slice. simpl. replace (List.length f - 0) with (List.length f) by lia.
    rewrite firstn_app, firstn_all, Nat.sub_diag. simpl. apply app_nil_r.
  - simpl. unfold slice.
    replace (List.length g + off r i + List.length f - (List.length g + off r i)) with (List.length f) by lia.
    rewrite skipn_app, skipn_all2 by lia. simpl.
    replace (List.length g + off r i - List.length g) with (off r i) by lia.
    specialize (IH i f H). unfold slice in IH.
    replace (off r i + List.length f - off r i) with (List.length f) in IH by lia. exact IH.
Qed.

Lemma skipn_concat fs : forall i, i <= List.length fs -> skipn (off fs i) (List.concat fs) = List.concat (skipn i fs).
Proof.
  induction fs as [|g r IH]; intros [|i] H; simpl in *; auto; try lia.
  rewrite skipn_app, skipn_all2 by lia. simpl.
  replace (List.length g + off r i - List.length g) with (off r i) by lia. apply IH. lia.
Qed.

(** ** whitespace-separated words in a padded block *)
Definition word_ok (w : list ascii) : Prop := w <> [] /\ forallb (fun c => negb (is_space c)) w = true.

(* words, each followed by at least one blank, then any number of blanks *)
Fixpoint block (wps : list (list ascii * nat)) (k : nat) : list ascii :=
  match wps with
  | [] => repeat_char " "%char k
  | (w, p) :: r => w ++ repeat_char " "%char (S p) ++ block r k
  end.

Lemma split_ws_go_spaces k rest : split_ws_go (repeat_char " "%char k ++ rest) [] = split_ws_go rest [].
Proof. induction k; simpl; auto. Qed.

Lemma split_ws_go_word w : forallb (fun c => negb (is_space c)) w = true -> forall rest cur,
  split_ws_go (w ++ rest) cur = split_ws_go rest (rev w ++ cur).
Proof.
  induction w as [|a w IH]; intros H rest cur; simpl; auto.
  simpl in H. apply andb_true_iff in H. destruct H as [Ha Hw]. apply negb_true_iff in Ha. rewrite Ha.
  rewrite IH by auto. rewrite <- app_assoc. reflexivity.
Qed.

Lemma split_ws_go_block wps k : Forall (fun wp => word_ok (fst wp)) wps ->
  split_ws_go (block wps k) [] = map fst wps.
Proof.
  induction wps as [|[w p] r IH]; intro H; simpl.
  - rewrite <- (app_nil_r (repeat_char " "%char k)). rewrite split_ws_go_spaces. reflexivity.
  - inversion H as [|? ? [Hne Hw] Hr]; subst. simpl in *.
    rewrite split_ws_go_word by auto. simpl.
    destruct (rev w ++ []) eqn:E.
    { exfalso. rewrite app_nil_r in E. apply (f_equal (@rev ascii)) in E. rewrite rev_involutive in E. auto. }
    rewrite <- E, app_nil_r, rev_involutive. f_equal.
    rewrite split_ws_go_spaces. apply IH. exact Hr.
Qed.

Lemma split_ws_block wps k : Forall (fun wp => word_ok (fst wp)) wps ->
  split_ws (str (block wps k)) = map (fun wp => str (fst wp)) wps.
Proof.
  intro H. unfold split_ws. rewrite chars_str, split_ws_go_block by auto. rewrite map_map. reflexivity.
Qed.

(** Leeds: widths 5/30/50/8/9/10/5/5/3 *)
Lemma leeds_roundtrip_lemma tbl pseudo idx rws kr pws kp a b c lt ht ty :
  List.length idx = 5 -> List.length (block rws kr) = 30 -> List.length (block pws kp) = 50 ->
  List.length a = 8 -> List.length b = 9 -> List.length c = 10 -> List.length lt = 5 -> List.length ht = 5 ->
  List.length ty = 3 ->
  Forall (fun wp => word_ok (fst wp)) rws -> Forall (fun wp => word_ok (fst wp)) pws ->
  let yc := fun n => replace "YC" "CH2OHC" n in
  decode_leeds tbl pseudo (str (List.concat [idx; block rws kr; block pws kp; a; b; c; lt; ht; ty])) =
  inr {| d_reac := species_names pseudo (map yc (map (fun wp => str (fst wp)) rws));
         d_prod := species_names pseudo (map yc (map (fun wp => str (fst wp)) pws));
         d_alpha := str a; d_beta := str b; d_gamma := str c; d_tmin := str lt; d_tmax := str ht;
         d_idx := str idx; d_code := str (skipn 1 ty);
         d_type := match small_int (str (skipn 1 ty)) with Some t => assoc_Z t tbl | None => None end;
         d_source := "leeds"; d_rate := "" |}.
Proof.
  intros Li Lr Lp La Lb Lc Llt Lht Lty Hr Hp yc.
  set (fs := [idx; block rws kr; block pws kp; a; b; c; lt; ht; ty]).
  unfold decode_leeds, sslice. rewrite chars_str.
  assert (forall i f x y, nth_error fs i = Some f -> off fs i = x -> x + List.length f = y ->
                          slice (List.concat fs) x y = f) as S.
  { intros i f x y Hn <- <-. apply slice_concat; auto. }
  rewrite (S 0 idx 0 5) by (simpl; auto; lia).
  rewrite (S 1 (block rws kr) 5 35) by (simpl; auto; lia).
  rewrite (S 2 (block pws kp) 35 85) by (simpl; auto; lia).
  rewrite (S 3 a 85 93) by (simpl; auto; lia).
  rewrite (S 4 b 93 102) by (simpl; auto; lia).
  rewrite (S 5 c 102 112) by (simpl; auto; lia).
  rewrite (S 6 lt 112 117) by (simpl; auto; lia).
  rewrite (S 7 ht 117 122) by (simpl; auto; lia).
  assert (slice (List.concat fs) 123 125 = skipn 1 ty) as ->.
  { unfold slice. replace 123 with (off fs 8 + 1) by (subst fs; cbn [off]; lia).
    rewrite <- (skipn_skipn_add (List.concat fs) 1 (off fs 8)).
    rewrite skipn_concat by (subst fs; cbn [List.length]; lia).
    change (skipn 8 fs) with [ty]. cbn [List.concat]. rewrite app_nil_r.
    apply firstn_all2. rewrite skipn_length. lia. }
  rewrite !split_ws_block by auto. reflexivity.
Qed.

Lemma split_ws_go_block_last wps w : Forall (fun wp => word_ok (fst wp)) wps -> word_ok w ->
  split_ws_go (block wps 0 ++ w) [] = map fst wps ++ [w].
Proof.
  intros H [Hne Hw]. induction wps as [|[v p] r IH]; simpl.
  - pose proof (split_ws_go_word w Hw [] []) as G. rewrite !app_nil_r in G. rewrite G. simpl.
    destruct (rev w) eqn:E.
    { exfalso. apply (f_equal (@rev ascii)) in E. rewrite rev_involutive in E. auto. }
    rewrite <- E, rev_involutive. reflexivity.
  - inversion H as [|? ? [Hvne Hv] Hr]; subst. simpl in *.
    rewrite <- !app_assoc. rewrite split_ws_go_word by auto. simpl.
    destruct (rev v ++ []) eqn:E.
    { exfalso. rewrite app_nil_r in E. apply (f_equal (@rev ascii)) in E. rewrite rev_involutive in E. auto. }
    rewrite <- E, app_nil_r, rev_involutive. f_equal.
    rewrite <- app_assoc. rewrite split_ws_go_spaces. apply IH. exact Hr.
Qed.

(** KIDA: 34 + 56 columns of species, then 13 whitespace-separated fields *)
Lemma kida_roundtrip_lemma tbl pseudo rws kr pws kp
      a b c x1 x2 x3 itype lt ut form idx y1 y2 q1 q2 q3 q4 q5 q6 q7 q8 q9 q10 q11 q12 ws :
  List.length (block rws kr) = 34 -> List.length (block pws kp) = 56 ->
  Forall (fun wp => word_ok (fst wp)) rws -> Forall (fun wp => word_ok (fst wp)) pws ->
  Forall word_ok [a; b; c; x1; x2; x3; itype; lt; ut; form; idx; y1; y2] ->
  let tail := block [(a, q1); (b, q2); (c, q3); (x1, q4); (x2, q5); (x3, q6); (itype, q7); (lt, q8); (ut, q9);
                     (form, q10); (idx, q11); (y1, q12)] 0 ++ y2 in
  let L := List.concat [block rws kr; block pws kp; tail] in
  edge_ok L = true -> forallb is_space ws = true ->
  decode_kida tbl pseudo (str (L ++ ws)) =
  inr {| d_reac := species_names pseudo (map (fun wp => str (fst wp)) rws);
         d_prod := species_names pseudo (map (fun wp => str (fst wp)) pws);
         d_alpha := str a; d_beta := str b; d_gamma := str c; d_tmin := str lt; d_tmax := str ut; d_idx := str idx;
         d_code := str form;
         d_type := assoc_Z (match small_int (str form) with
                            | Some f => if (Z.leb 1 f && Z.leb f 6)%bool then f else 3%Z
                            | None => 3%Z end) tbl;
         d_source := "kida"; d_rate := "" |}.
Proof.
  intros Lr Lp Hr Hp Hw tail L Hedge Hws.
  unfold decode_kida.
  assert (strip (str (L ++ ws)) = str L) as ->.
  { unfold strip. rewrite chars_str. pose proof (strip_padded 0 L ws Hedge Hws) as H. simpl in H. rewrite H. reflexivity. }
  unfold sslice, sfrom. rewrite chars_str.
  set (fs := [block rws kr; block pws kp; tail]).
  assert (slice L 0 34 = block rws kr) as ->.
  { pose proof (slice_concat fs 0 (block rws kr) eq_refl) as H. unfold fs in H. cbn [off Nat.add] in H. rewrite Lr in H. exact H. }
  assert (slice L 34 90 = block pws kp) as ->.
  { pose proof (slice_concat fs 1 (block pws kp) eq_refl) as H. unfold fs in H. cbn [off] in H. rewrite Lr, Lp in H. exact H. }
  assert (skipn 90 L = tail) as ->.
  { pose proof (skipn_concat fs 2) as H. unfold fs in H. cbn [off] in H. rewrite Lr, Lp in H.
    replace (34 + (56 + 0)) with 90 in H by lia. unfold L. rewrite H by (simpl; lia). simpl. apply app_nil_r. }
  rewrite !split_ws_block by auto.
  unfold split_ws. rewrite chars_str. unfold tail.
  repeat match goal with H : Forall _ (_ :: _) |- _ => apply Forall_cons_iff in H; destruct H as [? H] end.
  rewrite split_ws_go_block_last.
  - reflexivity.
  - repeat (constructor; [assumption|]). constructor.
  - assumption.
Qed.

(** KROME: whatever the @format, the reactants (products) are the non-empty, non-marker values
    under the keys r (p), in order *)
Definition vals_of (key : string) (kv : list (string * string)) : list string :=
  map snd (filter (fun p : string * string => String.eqb (fst p) key) kv).

Lemma krome_fields_species pseudo kv : forall d,
  d_reac (krome_fields pseudo kv d) = d_reac d ++ species_names pseudo (vals_of "r" kv) /\
  d_prod (krome_fields pseudo kv d) = d_prod d ++ species_names pseudo (vals_of "p" kv).
Proof.
  induction kv as [|[k v] r IH]; intro d; simpl. rewrite !app_nil_r. auto.
  unfold vals_of in *. simpl.
  destruct (String.eqb v "") eqn:Ev.
  { apply String.eqb_eq in Ev. subst. destruct (IH d) as [H1 H2]. rewrite H1, H2.
    destruct (String.eqb k "r"); destruct (String.eqb k "p"); simpl; auto. }
  destruct (String.eqb k "idx") eqn:Ei.
  { apply String.eqb_eq in Ei. subst. simpl.
    match goal with |- context [krome_fields pseudo r ?D] => destruct (IH D) as [H1 H2] end.
    rewrite H1, H2. simpl. auto. }
  destruct (String.eqb k "r") eqn:Er.
  { apply String.eqb_eq in Er. subst. simpl.
    unfold species_names. simpl. fold (species_names pseudo).
    destruct (keep_name pseudo v) eqn:Ek; simpl.
    - match goal with |- context [krome_fields pseudo r ?D] => destruct (IH D) as [H1 H2] end.
      rewrite H1, H2. simpl. rewrite <- app_assoc. auto.
    - apply IH. }
  destruct (String.eqb k "p") eqn:Ep.
  { apply String.eqb_eq in Ep. subst. simpl.
    unfold species_names. simpl. fold (species_names pseudo).
    destruct (keep_name pseudo v) eqn:Ek; simpl.
    - match goal with |- context [krome_fields pseudo r ?D] => destruct (IH D) as [H1 H2] end.
      rewrite H1, H2. simpl. rewrite <- app_assoc. auto.
    - apply IH. }
  simpl.
  destruct (String.eqb k "tmin"). { match goal with |- context [krome_fields pseudo r ?D] => destruct (IH D) as [H1 H2] end. auto. }
  destruct (String.eqb k "tmax"). { match goal with |- context [krome_fields pseudo r ?D] => destruct (IH D) as [H1 H2] end. auto. }
  destruct (String.eqb k "rate"). { match goal with |- context [krome_fields pseudo r ?D] => destruct (IH D) as [H1 H2] end. auto. }
  apply IH.
Qed.

Lemma krome_decode_lemma unknown pseudo fmtline vals ws :
  vals <> [] -> Forall (nosep ","%char) vals ->
  edge_ok (chars (join ","%char vals)) = true -> forallb is_space (chars ws) = true ->
  exists d, decode_krome unknown pseudo fmtline (join ","%char vals ++ ws)%string = inr d /\
    let kv := combine (split_on ","%char (strip (lower fmtline))) vals in
    d_reac d = species_names pseudo (vals_of "r" kv) /\
    d_prod d = species_names pseudo (vals_of "p" kv).
Proof.
  intros Hne Hsep Hedge Hws. unfold decode_krome. rewrite strip_line by auto.
  rewrite split_on_join by auto. eexists. split. reflexivity.
  simpl. destruct (krome_fields_species pseudo
    (combine (split_on ","%char (strip (lower fmtline))) vals) (krome_empty unknown)) as [H1 H2].
  rewrite H1, H2. simpl. auto.
Qed.
