(** C08: the name parser finds exactly the intended symbols.

    A name is *rendered* from a list of items (symbol text, digit run).  Under a
    decidable [unambiguous] condition on the rendered string, the longest-first
    masked scan finds exactly the intended occurrences (no spurious match, none
    missed), sorting them by start restores the item order, and the counting loop
    is the fold of [item_step] over the items. *)
From Coq Require Import List Arith Bool String Ascii ZArith NArith Lia Sorted Permutation.
From Naunet Require Import Lib.ListX Lib.PyStr Model.Species Model.SpeciesSpec Proofs.SpeciesProofs.
Import ListNotations.

Definition occ (t s : list ascii) (st : nat) : Prop := starts_with t (skipn st s) = true.

Definition tdisjoint (a b : tok) : Prop := tend a <= fst b \/ tend b <= fst a.
Definition overlaps (st n : nat) (a : tok) : Prop := fst a < st + n /\ st < tend a.

Record intended (comps : list string) (pn : list ascii) (toks : list tok) : Prop := {
  i_comp : forall a, In a toks -> In (snd a) (map txt comps) /\ snd a <> [] /\ occ (snd a) pn (fst a);
  i_disj : forall a b, In a toks -> In b toks -> a <> b -> tdisjoint a b;
}.

(* every occurrence of a configured symbol in the name is an intended token or
   overlaps an intended token of a symbol that is tried earlier *)
Definition unambiguous (comps : list string) (pn : list ascii) (toks : list tok) : Prop :=
  forall k c st, nth_error comps k = Some c -> occ (txt c) pn st ->
    In (st, txt c) toks \/
    exists a, In a toks /\ In (snd a) (map txt (firstn k comps)) /\ overlaps st (List.length (txt c)) a.

Definition mk (a : tok) : mtch := {| m_start := fst a; m_end := tend a; m_text := snd a |}.

(** ** occurrences, pointwise *)
Lemma starts_with_iff p : forall s,
  starts_with p s = true <-> forall j c, nth_error p j = Some c -> nth_error s j = Some c.
Proof.
  induction p as [|a p IH]; intros s; simpl.
  - split; auto. intros _ [|j] c H; discriminate.
  - destruct s as [|b s].
    + split. discriminate. intro H. specialize (H 0 a eq_refl). discriminate.
    + rewrite andb_true_iff, IH. split.
      * intros [Hab H] [|j] c Hj; simpl in *.
        -- apply Ascii.eqb_eq in Hab. congruence.
        -- auto.
      * intro H. split.
        -- specialize (H 0 a eq_refl). simpl in H. injection H as ->. apply Ascii.eqb_refl.
        -- intros j c Hj. apply (H (S j) c Hj).
Qed.

Lemma occ_iff t s st : occ t s st <-> forall j c, nth_error t j = Some c -> nth_error s (st + j) = Some c.
Proof.
  unfold occ. rewrite starts_with_iff. split; intros H j c Hj; specialize (H j c Hj);
    rewrite nth_error_skipn_add in *; auto.
Qed.

Lemma occ_bound t s st : t <> [] -> occ t s st -> st + List.length t <= List.length s.
Proof.
  intros Hne H. apply starts_with_length in H. rewrite skipn_length in H.
  destruct t; [congruence | simpl in *; lia].
Qed.

Lemma occ_ext t s s' st :
  (forall i, st <= i < st + List.length t -> nth_error s' i = nth_error s i) ->
  occ t s st -> occ t s' st.
Proof.
  rewrite !occ_iff. intros Hext H j c Hj. rewrite Hext. auto.
  assert (j < List.length t) by (apply nth_error_Some; congruence). lia.
Qed.

(** ** [find_all] misses nothing when occurrences do not overlap *)
Lemma find_all_from_complete p : p <> [] -> forall fuel s pos,
  List.length s <= fuel ->
  (forall a b, occ p s a -> occ p s b -> a < b -> a + List.length p <= b) ->
  forall a, occ p s a -> In (pos + a) (find_all_from fuel p s pos).
Proof.
  intro Hp. induction fuel as [|f IH]; intros s pos Hlen Hsp a Ha.
  - apply occ_bound in Ha; auto. destruct p; [congruence|]. simpl in *. lia.
  - simpl. destruct s as [|c s'].
    { apply occ_bound in Ha; auto. destruct p; [congruence|]. simpl in *. lia. }
    destruct (starts_with p (c :: s')) eqn:E.
    + destruct a as [|a'].
      * left. lia.
      * right. assert (occ p (c :: s') 0) as H0 by exact E.
        pose proof (Hsp 0 (S a') H0 Ha ltac:(lia)) as Hge. simpl in Hge.
        replace (pos + S a') with (pos + List.length p + (S a' - List.length p)) by lia.
        apply IH.
        -- rewrite skipn_length. simpl in *. destruct p; [congruence|]. simpl. lia.
        -- intros x y Hx Hy Hxy. unfold occ in Hx, Hy. rewrite skipn_skipn_add in Hx, Hy.
           pose proof (Hsp _ _ Hx Hy ltac:(lia)). lia.
        -- unfold occ. rewrite skipn_skipn_add.
           replace (List.length p + (S a' - List.length p)) with (S a') by lia. exact Ha.
    + destruct a as [|a'].
      * unfold occ in Ha. simpl in Ha. congruence.
      * replace (pos + S a') with (S pos + a') by lia. apply IH.
        -- simpl in Hlen. lia.
        -- intros x y Hx Hy Hxy. pose proof (Hsp (S x) (S y) Hx Hy ltac:(lia)). lia.
        -- exact Ha.
Qed.

Lemma find_all_complete p s :
  (forall a b, occ p s a -> occ p s b -> a < b -> a + List.length p <= b) ->
  forall a, p <> [] -> occ p s a -> In a (find_all p s).
Proof.
  intros Hsp a Hp Ha. unfold find_all. destruct p as [|x p]; [congruence|].
  change a with (0 + a). apply find_all_from_complete; auto.
Qed.

(** ** masking leaves the other positions alone *)
Lemma mask_outside s a b i : a <= b <= List.length s -> ~ (a <= i < b) ->
  nth_error (mask s a b) i = nth_error s i.
Proof.
  intros Hab Hi. unfold mask.
  destruct (Nat.lt_ge_cases i a) as [Hia|Hia].
  - rewrite nth_error_app1 by (rewrite firstn_length; lia). apply nth_error_firstn_lt. lia.
  - rewrite nth_error_app2 by (rewrite firstn_length; lia).
    rewrite firstn_length. replace (Nat.min a (List.length s)) with a by lia.
    rewrite nth_error_app2 by (rewrite repeat_char_length; lia).
    rewrite repeat_char_length, nth_error_skipn_add. f_equal. lia.
Qed.

Lemma fold_mask_outside n starts : forall s i,
  Forall (fun st => st + n <= List.length s) starts ->
  (forall st, In st starts -> ~ (st <= i < st + n)) ->
  nth_error (fold_left (fun cur st => mask cur st (st + n)) starts s) i = nth_error s i.
Proof.
  induction starts as [|st r IH]; intros s i Hall Hout; simpl; auto.
  inversion Hall as [|? ? Hst Hr]; subst. rewrite IH.
  - apply mask_outside. lia. apply Hout. simpl; auto.
  - rewrite mask_length by lia. exact Hr.
  - intros st' Hin. apply Hout. simpl; auto.
Qed.

(** ** the scan invariant *)
Section Scan.
Variables (comps : list string) (pn : list ascii) (toks : list tok).
Hypothesis Hnb : Forall (fun c => no_blank (txt c)) comps.
Hypothesis HI : intended comps pn toks.
Hypothesis HU : unambiguous comps pn toks.

Record inv (k : nat) (s : list ascii) (acc : list mtch) : Prop := {
  v_masked : masked_of pn s;
  v_blank : blanked s acc;
  v_keep : forall i, (forall m, In m acc -> ~ (m_start m <= i < m_end m)) -> nth_error s i = nth_error pn i;
  v_acc : forall m, In m acc <->
            exists a, In a toks /\ m = mk a /\ In (snd a) (map txt (firstn k comps));
}.

Lemma list_ascii_dec (a b : list ascii) : {a = b} + {a <> b}.
Proof. apply list_eq_dec, ascii_dec. Qed.

Lemma firstn_S_nth {X} (l : list X) : forall k x, nth_error l k = Some x -> firstn (S k) l = (firstn k l ++ [x])%list.
Proof.
  induction l as [|y l IH]; intros [|k] x H; simpl in *; try discriminate.
  - congruence.
  - f_equal. apply IH. exact H.
Qed.

Lemma skipn_cons_nth {X} (l : list X) : forall k x r, skipn k l = x :: r -> nth_error l k = Some x /\ skipn (S k) l = r.
Proof.
  induction l as [|y l IH]; intros [|k] x r H; simpl in *; try discriminate.
  - injection H as -> ->. auto.
  - apply IH. exact H.
Qed.

Lemma inv_step k c rest s acc :
  skipn k comps = c :: rest -> inv k s acc ->
  let t := txt c in
  let n := List.length t in
  let starts := find_all t s in
  inv (S k) (fold_left (fun cur st => mask cur st (st + n)) starts s)
      (acc ++ map (fun st => {| m_start := st; m_end := st + n; m_text := t |}) starts)%list.
Proof.
  intros Hsk [Hm Hb Hk Ha] t n starts.
  destruct (skipn_cons_nth _ _ _ _ Hsk) as [Hnth _].
  assert (Hnbt : no_blank t).
  { rewrite Forall_forall in Hnb. apply Hnb. eapply nth_error_In; eauto. }
  (* an occurrence in the masked string is an intended token not yet claimed *)
  assert (A1 : forall st, t <> [] -> occ t s st ->
            In (st, t) toks /\ ~ In t (map txt (firstn k comps))).
  { intros st Hne Hocc.
    destruct (masked_match pn s t st Hm Hnbt Hne Hocc) as [Hpn _].
    assert (Hpos : 0 < n) by (unfold n; destruct t; [congruence | simpl; lia]).
    assert (Hclaimed : forall a, In a toks -> In (snd a) (map txt (firstn k comps)) ->
                       overlaps st n a -> False).
    { intros a Hin Hdone [Ho1 Ho2].
      assert (In (mk a) acc) as Hacc by (apply Ha; eauto).
      destruct (Hb _ Hacc) as [_ Hbl]. simpl in Hbl. unfold tend in *.
      apply (match_not_blank t s st (Nat.max st (fst a)) Hnbt Hocc). fold n. lia.
      destruct (i_comp _ _ _ HI _ Hin) as (_ & Hane & _).
      assert (0 < List.length (snd a)) by (destruct (snd a); [congruence | simpl; lia]).
      apply Hbl. lia. }
    destruct (HU k c st Hnth Hpn) as [Hin|(a & Hin & Hdone & Hov)].
    - split; auto. intro Hdone. apply (Hclaimed (st, t) Hin Hdone).
      unfold overlaps, tend; simpl. fold n. lia.
    - exfalso. eapply Hclaimed; eauto. }
  (* an intended token of this symbol, not yet claimed, is still visible *)
  assert (A2 : forall st, In (st, t) toks -> ~ In t (map txt (firstn k comps)) -> occ t s st).
  { intros st Hin Hnd. destruct (i_comp _ _ _ HI _ Hin) as (_ & _ & Hocc). simpl in Hocc.
    eapply occ_ext; [|exact Hocc]. intros i Hi. apply Hk. intros m Hmacc Hmi.
    apply Ha in Hmacc. destruct Hmacc as (a & Hain & -> & Hdone). simpl in Hmi.
    assert (a <> (st, t)) as Hneq by (intro E; subst a; auto).
    destruct (i_disj _ _ _ HI _ _ Hain Hin Hneq) as [H|H]; unfold tend in *; simpl in *; lia. }
  assert (Hstarts : forall st, In st starts <-> In (st, t) toks /\ ~ In t (map txt (firstn k comps))).
  { intro st. split.
    - intro Hin. assert (t <> []) as Hne by (intro E; unfold starts in Hin; rewrite E in Hin; destruct Hin).
      apply A1; auto. apply find_all_sound. exact Hin.
    - intros [Hin Hnd].
      assert (t <> []) as Hne by (destruct (i_comp _ _ _ HI _ Hin) as (_ & H & _); exact H).
      apply find_all_complete; auto.
      intros a b Hoa Hob Hab.
      destruct (A1 a Hne Hoa) as [Ta _]. destruct (A1 b Hne Hob) as [Tb _].
      assert ((a, t) <> (b, t)) as Hneq by (intro E; injection E; lia).
      destruct (i_disj _ _ _ HI _ _ Ta Tb Hneq) as [H|H]; unfold tend in H; simpl in H; lia. }
  assert (Hbound : Forall (fun st => st + n <= List.length s) starts).
  { apply Forall_forall. intros st Hin. apply Hstarts in Hin. destruct Hin as [Hin Hnd].
    assert (t <> []) as Hne by (destruct (i_comp _ _ _ HI _ Hin) as (_ & H & _); exact H).
    apply occ_bound; auto. }
  assert (Hpos : forall st, In st starts -> 0 < n).
  { intros st Hin. apply Hstarts in Hin. destruct Hin as [Hin _].
    destruct (i_comp _ _ _ HI _ Hin) as (_ & H & _). simpl in H. unfold n. destruct t; [congruence | simpl; lia]. }
  constructor.
  - apply fold_mask_masked; auto. destruct Hm as [Hl _]. rewrite <- Hl. exact Hbound.
  - intros m Hmin. apply in_app_or in Hmin. destruct Hmin as [Hmin|Hmin].
    + destruct (Hb m Hmin) as [Hlt Hbl]. split; auto. intros i Hi.
      apply fold_mask_blank; auto.
    + apply in_map_iff in Hmin. destruct Hmin as (st & <- & Hin). simpl. split.
      * specialize (Hpos st Hin). lia.
      * intros i Hi. apply fold_mask_blank; auto. right. eauto.
  - intros i Hout. rewrite fold_mask_outside; auto.
    + apply Hk. intros m Hmin. apply Hout. apply in_or_app. auto.
    + intros st Hin Hi. apply (Hout {| m_start := st; m_end := st + n; m_text := t |}); simpl; auto.
      apply in_or_app. right. apply in_map_iff. eauto.
  - intro m. rewrite in_app_iff, Ha, in_map_iff, (firstn_S_nth _ _ _ Hnth), map_app. simpl. split.
    + intros [(a & Hin & -> & Hd)|(st & <- & Hin)].
      * exists a. repeat split; auto. apply in_or_app. auto.
      * apply Hstarts in Hin. destruct Hin as [Hin _]. exists (st, t). repeat split; auto.
        apply in_or_app. right. simpl. auto.
    + intros (a & Hin & -> & Hd). apply in_app_or in Hd.
      destruct (in_dec list_ascii_dec (snd a) (map txt (firstn k comps))) as [Hdone|Hnd].
      * left. eauto.
      * destruct Hd as [Hd|[Hd|[]]]; [contradiction|]. right. exists (fst a).
        fold t in Hd. destruct a as [st ta]. simpl in *. subst ta. split; auto.
        apply Hstarts. auto.
Qed.

Lemma scan_inv : forall rest k s acc,
  skipn k comps = rest -> inv k s acc ->
  forall m, In m (scan rest s acc) <-> exists a, In a toks /\ m = mk a.
Proof.
  induction rest as [|c rest IH]; intros k s acc Hsk Hinv m.
  - simpl. rewrite (v_acc _ _ _ Hinv). split.
    + intros (a & H1 & H2 & _). eauto.
    + intros (a & H1 & H2). exists a. repeat split; auto.
      destruct (i_comp _ _ _ HI _ H1) as (Hc & _).
      assert (List.length comps <= k) as Hlen.
      { destruct (Nat.le_gt_cases (List.length comps) k); auto.
        assert (List.length (skipn k comps) = 0) as E by (rewrite Hsk; auto).
        rewrite skipn_length in E. lia. }
      rewrite firstn_all2 by exact Hlen. exact Hc.
  - simpl. apply (IH (S k)).
    + destruct (skipn_cons_nth _ _ _ _ Hsk) as [_ H]. exact H.
    + apply (inv_step k c rest s acc Hsk Hinv).
Qed.

Theorem scan_exact_lemma : forall m, In m (scan comps pn []) <-> exists a, In a toks /\ m = mk a.
Proof.
  apply (scan_inv comps 0 pn []); auto. constructor.
  - split; auto.
  - intros m [].
  - auto.
  - intro m. simpl. split. intros []. intros (a & _ & _ & []).
Qed.
End Scan.

(** ** sorting the matches by start restores the token order *)
Section KeySort.
Context {X : Type} (key : X -> nat).
Let leb (a b : X) : bool := Nat.leb (key a) (key b).

Lemma insert_key_sorted x l :
  StronglySorted (fun a b => key a <= key b) l ->
  StronglySorted (fun a b => key a <= key b) (insert_sorted leb x l).
Proof.
  induction 1 as [|a l Hs IH Ha]; simpl. repeat constructor.
  unfold leb at 1. destruct (Nat.leb_spec (key x) (key a)).
  - constructor. constructor; auto. constructor; auto.
    rewrite Forall_forall in *. intros y Hy. specialize (Ha y Hy). lia.
  - constructor; auto. rewrite Forall_forall in *. intros y Hy.
    apply insert_sorted_in in Hy. destruct Hy as [->|Hy]; auto. lia.
Qed.
Lemma isort_key_sorted l : StronglySorted (fun a b => key a <= key b) (isort leb l).
Proof. induction l; simpl. constructor. apply insert_key_sorted; auto. Qed.

Lemma insert_key_perm x l : Permutation (insert_sorted leb x l) (x :: l).
Proof.
  induction l as [|a l IH]; simpl; auto. destruct (leb x a); auto.
  eapply perm_trans. apply perm_skip. exact IH. apply perm_swap.
Qed.
Lemma isort_key_perm l : Permutation (isort leb l) l.
Proof.
  induction l as [|a l IH]; simpl; auto. eapply perm_trans. apply insert_key_perm. auto.
Qed.

Lemma sorted_perm_strict l1 : forall l2,
  StronglySorted (fun a b => key a <= key b) l1 ->
  StronglySorted (fun a b => key a < key b) l2 ->
  Permutation l1 l2 -> l1 = l2.
Proof.
  induction l1 as [|a l1 IH]; intros l2 S1 S2 P.
  - apply Permutation_nil in P. auto.
  - destruct l2 as [|b l2]. apply Permutation_sym, Permutation_nil in P. discriminate.
    inversion S1 as [|? ? S1' F1]; subst. inversion S2 as [|? ? S2' F2]; subst.
    assert (a = b) as ->.
    { assert (In a (b :: l2)) as Ha by (eapply Permutation_in; [exact P | simpl; auto]).
      assert (In b (a :: l1)) as Hb by (eapply Permutation_in; [apply Permutation_sym; exact P | simpl; auto]).
      rewrite Forall_forall in F1, F2.
      destruct Ha as [->|Ha]; auto. destruct Hb as [->|Hb]; auto.
      specialize (F1 _ Hb). specialize (F2 _ Ha). lia. }
    f_equal. apply IH; auto. eapply Permutation_cons_inv; eauto.
Qed.
End KeySort.

Lemma FOP_NoDup {X} (R : X -> X -> Prop) l :
  ForallOrdPairs R l -> (forall x, In x l -> ~ R x x) -> NoDup l.
Proof.
  induction 1 as [|x l Hx Hl IH]; intro Hirr; constructor.
  - intro Hin. rewrite Forall_forall in Hx. apply (Hirr x); simpl; auto.
  - apply IH. intros y Hy. apply Hirr. simpl; auto.
Qed.

Lemma ssorted_lt_NoDup {X} (key : X -> nat) l :
  StronglySorted (fun a b => key a < key b) l -> NoDup l.
Proof.
  induction 1 as [|x l Hs IH Hx]; constructor; auto.
  intro Hin. rewrite Forall_forall in Hx. specialize (Hx x Hin). lia.
Qed.

Theorem sorted_matches_lemma comps pn toks :
  Forall (fun c => no_blank (txt c)) comps ->
  intended comps pn toks -> unambiguous comps pn toks ->
  StronglySorted (fun a b : tok => fst a < fst b) toks ->
  isort by_start (scan comps pn []) = map mk toks.
Proof.
  intros Hnb HI HU Hs.
  pose proof (scan_exact_lemma comps pn toks Hnb HI HU) as Hex.
  apply (sorted_perm_strict m_start).
  - apply (isort_key_sorted m_start).
  - clear - Hs. induction Hs as [|a l Hl IH Ha]; simpl; constructor; auto.
    rewrite Forall_forall in *. intros m Hm. apply in_map_iff in Hm. destruct Hm as (b & <- & Hb).
    simpl. auto.
  - eapply perm_trans. apply (isort_key_perm m_start).
    apply NoDup_Permutation.
    + apply (FOP_NoDup span_disjoint).
      * apply scan_disjoint_lemma; auto. intros m []. constructor.
      * intros m Hm. apply Hex in Hm. destruct Hm as (a & Ha & ->).
        destruct (i_comp _ _ _ HI _ Ha) as (_ & Hne & _).
        unfold span_disjoint, mk, tend; simpl. destruct (snd a); [congruence | simpl; lia].
    + apply (ssorted_lt_NoDup m_start).
      clear - Hs. induction Hs as [|a l Hl IH Ha]; simpl; constructor; auto.
      rewrite Forall_forall in *. intros m Hm. apply in_map_iff in Hm. destruct Hm as (b & <- & Hb).
      simpl. auto.
    + intro m. rewrite Hex, in_map_iff. split; intros (a & H1 & H2); eauto.
Qed.


Lemma positions_ge its : forall p a, In a (positions p its) -> p <= fst a.
Proof.
  induction its as [|[t d] r IH]; intros p a H; simpl in H. destruct H.
  destruct H as [<-|H]; simpl; auto. apply IH in H. lia.
Qed.

Lemma positions_sorted its : forall p,
  Forall (fun it : item => fst it <> []) its ->
  StronglySorted (fun a b : tok => tend a <= fst b) (positions p its).
Proof.
  induction its as [|[t d] r IH]; intros p Hne; simpl; constructor.
  - apply IH. inversion Hne; auto.
  - apply Forall_forall. intros a Ha. apply positions_ge in Ha. unfold tend; simpl. lia.
Qed.

Lemma occ_app_mid pre t post : occ t (pre ++ t ++ post)%list (List.length pre).
Proof.
  apply occ_iff. intros j c Hj.
  rewrite nth_error_app2 by lia. replace (List.length pre + j - List.length pre) with j by lia.
  rewrite nth_error_app1; auto. apply nth_error_Some. congruence.
Qed.

Lemma positions_occ its : forall pre a,
  In a (positions (List.length pre) its) -> occ (snd a) (pre ++ render its)%list (fst a).
Proof.
  induction its as [|[t d] r IH]; intros pre a H; simpl in H. destruct H.
  destruct H as [<-|H]; simpl.
  - apply occ_app_mid.
  - specialize (IH (pre ++ t ++ d)%list a).
    rewrite !app_length, Nat.add_assoc in IH. specialize (IH H).
    rewrite <- !app_assoc in IH. exact IH.
Qed.

Lemma positions_intended comps its :
  Forall (fun it : item => In (fst it) (map txt comps) /\ fst it <> []) its ->
  intended comps (render its) (positions 0 its).
Proof.
  intro Hw. split.
  - intros a Ha. repeat split.
    + clear - Hw Ha. revert Ha. generalize 0. induction its as [|[t d] r IH]; intros p Ha; simpl in Ha. destruct Ha.
      inversion Hw as [|? ? [H1 H2] Hr]; subst. destruct Ha as [<-|Ha]; simpl; auto. eapply IH; eauto.
    + clear - Hw Ha. revert Ha. generalize 0. induction its as [|[t d] r IH]; intros p Ha; simpl in Ha. destruct Ha.
      inversion Hw as [|? ? [H1 H2] Hr]; subst. destruct Ha as [<-|Ha]; simpl; auto. eapply IH; eauto.
    + apply (positions_occ its [] a Ha).
  - assert (Hne : Forall (fun it : item => fst it <> []) its).
    { eapply Forall_impl; [|exact Hw]. simpl. tauto. }
    pose proof (positions_sorted its 0 Hne) as Hs. revert Hs. generalize (positions 0 its).
    intros l Hs. induction Hs as [|x l Hl IH Hx]; intros a b Ha Hb Hab. destruct Ha.
    rewrite Forall_forall in Hx. destruct Ha as [<-|Ha]; destruct Hb as [<-|Hb].
    + congruence.
    + left. auto.
    + right. auto.
    + auto.
Qed.

Lemma positions_lt its : forall p,
  Forall (fun it : item => fst it <> []) its ->
  StronglySorted (fun a b : tok => fst a < fst b) (positions p its).
Proof.
  intros p Hne. pose proof (positions_sorted its p Hne) as Hs.
  assert (Hpos : forall a, In a (positions p its) -> snd a <> []).
  { clear Hs. revert p. induction its as [|[t d] r IH]; intros p a Ha; simpl in Ha. destruct Ha.
    inversion Hne; subst. destruct Ha as [<-|Ha]; simpl; auto. eapply IH; eauto. }
  revert Hs Hpos. generalize (positions p its). intros l Hs. induction Hs as [|x l Hl IH Hx]; intro Hpos; constructor.
  - apply IH. intros a Ha. apply Hpos. simpl; auto.
  - rewrite Forall_forall in *. intros b Hb. specialize (Hx b Hb). unfold tend in Hx.
    assert (snd x <> []) as Hn by (apply Hpos; simpl; auto). destruct (snd x); [congruence | simpl in Hx; lia].
Qed.


(* the zip of starts / ends / names, by recursion on the items *)
Fixpoint zs_of (L p e : nat) (n : string) (its : list item) : list (nat * nat * string) :=
  match its with
  | [] => [(L, e, n)]
  | (t, d) :: r =>
      (p, e, n) :: zs_of L (p + List.length t + List.length d) (p + List.length t) (str t) r
  end.

Lemma zs_of_combine L its : forall p e n,
  combine (combine (map m_start (map mk (positions p its)) ++ [L])%list
                   (e :: map m_end (map mk (positions p its))))
          (n :: map (fun m => str (m_text m)) (map mk (positions p its)))
  = zs_of L p e n its.
Proof.
  induction its as [|[t d] r IH]; intros p e n; simpl; auto.
  f_equal. unfold tend; simpl. apply IH.
Qed.

Lemma slice_mid pre d post : slice (pre ++ d ++ post)%list (List.length pre) (List.length pre + List.length d) = d.
Proof.
  unfold slice. rewrite skipn_app, skipn_all, Nat.sub_diag. simpl.
  replace (List.length pre + List.length d - List.length pre) with (List.length d) by lia.
  rewrite firstn_app, firstn_all, Nat.sub_diag. simpl. apply app_nil_r.
Qed.

Lemma count_loop_items T Y : forall its pre tp dp st,
  count_loop T Y (pre ++ tp ++ dp ++ render its)%list
             (zs_of (List.length (pre ++ tp ++ dp ++ render its)%list)
                    (List.length pre + List.length tp + List.length dp)
                    (List.length pre + List.length tp) (str tp) its) st
  = match item_step T Y tp dp st with
    | inl e => inl e
    | inr st' => items_loop T Y its st'
    end.
Proof.
  assert (Hstep : forall pre tp dp post st L r,
    count_loop T Y (pre ++ tp ++ dp ++ post)%list
      ((L, List.length pre + List.length tp, str tp) :: r) st =
    match (if negb (Nat.eqb (List.length pre + List.length tp) L) then
             let sub := slice (pre ++ tp ++ dp ++ post)%list (List.length pre + List.length tp) L in
             if all_digits sub then add_count T Y (replaced T (str tp)) (digits_val sub 0) st else inl EUnrecognised
           else if String.eqb (replaced T (str tp)) (y_grain Y) || String.eqb (replaced T (str tp)) (y_surface Y)
                then add_count T Y (replaced T (str tp)) 0%N st
           else if negb (String.eqb (replaced T (str tp)) "") then add_count T Y (replaced T (str tp)) 1%N st
           else inr st) with
    | inl e => inl e
    | inr st' => count_loop T Y (pre ++ tp ++ dp ++ post)%list r st'
    end) by reflexivity.
  assert (Hgap : forall pre tp dp post st,
    (if negb (Nat.eqb (List.length pre + List.length tp) (List.length pre + List.length tp + List.length dp)) then
       let sub := slice (pre ++ tp ++ dp ++ post)%list (List.length pre + List.length tp)
                        (List.length pre + List.length tp + List.length dp) in
       if all_digits sub then add_count T Y (replaced T (str tp)) (digits_val sub 0) st else inl EUnrecognised
     else if String.eqb (replaced T (str tp)) (y_grain Y) || String.eqb (replaced T (str tp)) (y_surface Y)
          then add_count T Y (replaced T (str tp)) 0%N st
     else if negb (String.eqb (replaced T (str tp)) "") then add_count T Y (replaced T (str tp)) 1%N st
     else inr st) = item_step T Y tp dp st).
  { intros pre tp dp post st. unfold item_step.
    replace (Nat.eqb (List.length pre + List.length tp) (List.length pre + List.length tp + List.length dp))
      with (Nat.eqb (List.length dp) 0).
    2:{ destruct (Nat.eqb_spec (List.length dp) 0); symmetry; [apply Nat.eqb_eq | apply Nat.eqb_neq]; lia. }
    destruct (negb (Nat.eqb (List.length dp) 0)); auto. cbv zeta.
    replace (slice (pre ++ tp ++ dp ++ post)%list (List.length pre + List.length tp)
               (List.length pre + List.length tp + List.length dp)) with dp; auto.
    rewrite <- (app_length pre tp). rewrite (app_assoc pre tp). symmetry. apply slice_mid. }
  induction its as [|[t d] r IH]; intros pre tp dp st.
  - cbn [zs_of render]. rewrite Hstep.
    replace (List.length (pre ++ tp ++ dp ++ [])%list) with (List.length pre + List.length tp + List.length dp)
      by (rewrite !app_length; simpl; lia).
    rewrite Hgap. destruct (item_step T Y tp dp st); reflexivity.
  - cbn [zs_of render]. rewrite Hstep, Hgap.
    destruct (item_step T Y tp dp st) as [e|st']; auto.
    specialize (IH (pre ++ tp ++ dp)%list t d st').
    rewrite !app_length in IH. rewrite <- !app_assoc in IH. rewrite !app_length.
    rewrite !Nat.add_assoc in *. exact IH.
Qed.

(** ** the whole parser, on rendered names *)

Theorem name_roundtrip_lemma T Y name its :
  wf_tables T Y ->
  parsename_of (chars name) = render its ->
  Forall (fun it : item => In (fst it) (map txt (components T Y)) /\ fst it <> []) its ->
  unambiguous (components T Y) (render its) (positions 0 its) ->
  match items_loop T Y (([], []) :: its) st0 with
  | inl e => parse_species T Y name = inl e
  | inr st => exists sp, parse_species T Y name = inr sp /\
                sp_counts sp = p_counts st /\ sp_surface sp = p_surface st /\
                sp_grain sp = p_grain st /\ sp_symbols sp = Y /\
                (t_replacement T = [] -> sp_name sp = name)
  end.
Proof.
  intros Hwf Hpn Hits HU.
  assert (Hne : Forall (fun it : item => fst it <> []) its).
  { eapply Forall_impl; [|exact Hits]. simpl. tauto. }
  pose proof (sorted_matches_lemma (components T Y) (render its) (positions 0 its) Hwf
                (positions_intended _ _ Hits) HU (positions_lt its 0 Hne)) as Hms.
  unfold parse_species. cbv zeta. rewrite Hpn, Hms, zs_of_combine.
  assert (Hhd : exists tl, (map m_start (map mk (positions 0 its)) ++ [List.length (render its)])%list = 0 :: tl).
  { destruct its as [|[t d] r]; simpl; eauto. }
  destruct Hhd as (tl & ->).
  pose proof (count_loop_items T Y its [] [] [] st0) as Hcl. cbn [app List.length Nat.add str string_of_list_ascii] in Hcl.
  change (string_of_list_ascii []) with EmptyString in Hcl.
  fold st0. rewrite Hcl. cbn [items_loop].
  destruct (item_step T Y [] [] st0) as [e|st1]; auto.
  destruct (items_loop T Y its st1) as [e|st]; auto.
  eexists. split. reflexivity. cbn. repeat split; auto.
  intros ->. reflexivity.
Qed.

(** ** decidable form of [unambiguous] *)

Lemma list_eqb_ascii_eq a : forall b, list_eqb Ascii.eqb a b = true <-> a = b.
Proof.
  induction a as [|x a IH]; intros [|y b]; simpl; split; intro H; try discriminate; auto.
  - apply andb_true_iff in H. destruct H as [H1 H2]. apply Ascii.eqb_eq in H1. apply IH in H2. congruence.
  - injection H as -> ->. rewrite Ascii.eqb_refl. apply IH. auto.
Qed.

Lemma memb_In_gen {X} (eqb : X -> X -> bool) (Heq : forall a b, eqb a b = true <-> a = b) x l :
  memb eqb x l = true <-> In x l.
Proof.
  induction l as [|y l IH]; simpl. split; [discriminate | tauto].
  rewrite orb_true_iff, Heq, IH. intuition.
Qed.

Lemma tok_eqb_eq a b : tok_eqb a b = true <-> a = b.
Proof.
  destruct a as [s1 t1], b as [s2 t2]. unfold tok_eqb; simpl.
  rewrite andb_true_iff, Nat.eqb_eq, list_eqb_ascii_eq. split; [intros [-> ->]; auto | intro H; injection H; auto].
Qed.

Lemma enumerate_from_nth {X} (l : list X) : forall n k x,
  nth_error l k = Some x -> In (n + k, x) (enumerate_from n l).
Proof.
  induction l as [|y l IH]; intros n [|k] x H; simpl in *; try discriminate.
  - injection H as ->. left. f_equal. lia.
  - right. replace (n + S k) with (S n + k) by lia. apply IH. exact H.
Qed.

Lemma unambiguousb_sound comps pn toks :
  unambiguousb comps pn toks = true -> unambiguous comps pn toks.
Proof.
  unfold unambiguousb. rewrite andb_true_iff. intros [Hne Hall] k c st Hnth Hocc.
  rewrite forallb_forall in Hne, Hall.
  assert (In c comps) as Hc by (eapply nth_error_In; eauto).
  assert (txt c <> []) as Hnec.
  { specialize (Hne c Hc). intro E. rewrite E in Hne. discriminate. }
  specialize (Hall (k, c)). cbv beta iota zeta in Hall.
  assert (In (k, c) (enumerate comps)) as Hin by (apply (enumerate_from_nth comps 0 k c Hnth)).
  specialize (Hall Hin). rewrite forallb_forall in Hall.
  assert (In st (seq 0 (S (List.length pn)))) as Hst.
  { apply in_seq. pose proof (occ_bound _ _ _ Hnec Hocc). lia. }
  specialize (Hall st Hst). unfold occ in Hocc. rewrite Hocc in Hall.
  apply orb_true_iff in Hall. destruct Hall as [H|H].
  - left. apply (memb_In_gen tok_eqb tok_eqb_eq). exact H.
  - right. apply existsb_exists in H. destruct H as (a & Ha & H).
    apply andb_true_iff in H. destruct H as [H1 H2].
    exists a. split; auto. split.
    + apply (memb_In_gen (list_eqb Ascii.eqb) list_eqb_ascii_eq). exact H1.
    + unfold overlapsb in H2. apply andb_true_iff in H2. destruct H2 as [H2 H3].
      apply Nat.ltb_lt in H2, H3. split; auto.
Qed.
