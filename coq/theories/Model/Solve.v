(** L8: Naunet::Solve and Naunet::HandleError (cvode dense / sparse), the cuSPARSE branch and the
    Odeint Solve + Observer, over a *scripted* integrator.  The integrator's contract: a call
    CVode(tout) either succeeds (time = tout) or fails with a negative flag at some time in
    [t_cur, tout); the state advances with time (the mock solution is y(t) = y0 + t, so the final
    state measures the integrated time); CVodeReInit resets the clock to 0.  Times are exact
    rationals; tout(level, step, dt) = dt * g level step with g level (10 level) = 1.
    Executable definitions only. *)
From Coq Require Import List Arith Bool ZArith QArith.
From Naunet Require Import Lib.ListX.
Import ListNotations.
Open Scope Q_scope.

Inductive outcome := COk | CFail (flag : Z) (rho : Q).    (* rho in [0,1): fraction of the requested interval reached *)
Inductive routcome := ROk | RFail (flag : Z).

Definition next_c (cs : list outcome) : outcome * list outcome :=
  match cs with [] => (COk, []) | o :: r => (o, r) end.
Definition next_r (rs : list routcome) : routcome * list routcome :=
  match rs with [] => (ROk, []) | o :: r => (o, r) end.

(* one CVode call from internal time tcur to tout: (flag, time returned, state, script left);
   results are kept in lowest terms ([Qred], equal as rationals) so that long scripts stay small *)
Definition cvode (tcur tout y : Q) (cs : list outcome) : Z * Q * Q * list outcome :=
  match next_c cs with
  | (COk, r) => (0%Z, tout, Qred (y + (tout - tcur)), r)
  | (CFail f rho, r) => (f, Qred (tcur + rho * (tout - tcur)), Qred (y + rho * (tout - tcur)), r)
  end.

Section Ladder.
Variable g : nat -> nat -> Q.      (* tout = dt * g level step *)

(* for (step = 1; step <= nsub; step++) { tout = ...; cvflag = CVode(tout); if (cvflag < 0) break; } *)
Fixpoint substeps (level nsub k : nat) (dt tcur y : Q) (cs : list outcome) (calls : nat)
  : Z * Q * Q * list outcome * nat :=
  match k with
  | O => (0%Z, tcur, y, cs, calls)
  | S k' =>
      let step := (nsub - k')%nat in
      let tout := dt * g level step in
      let '(f, t, y', cs') := cvode tcur tout y cs in
      if (f <? 0)%Z then (f, t, y', cs', S calls)
      else match k' with
           | O => (f, t, y', cs', S calls)
           | _ => substeps level nsub k' dt t y' cs' (S calls)
           end
  end.

Inductive result := Success | Failure.

(* for (level = 1; level < 6; level++) { ... }   [left] = levels still to try *)
Fixpoint levels (left level : nat) (cvflag : Z) (y dt t0 y_init dt_init : Q)
         (cs : list outcome) (rs : list routcome) (calls reinits : nat)
  : result * Q * nat * nat :=
  match left with
  | O => (Failure, y, calls, reinits)
  | S left' =>
      let nsub := (10 * level)%nat in
      (* which state and which remaining time to restart from *)
      let restart :=
          if ((cvflag <? 0) && (-5 <? cvflag))%Z%bool then Some (y, dt - t0)
          else if (cvflag =? -6)%Z then Some (y_init, dt_init)
          else None in
      match restart with
      | None => (Failure, y, calls, reinits)         (* unrecoverable flag *)
      | Some (y1, dt1) =>
          match next_r rs with
          | (RFail _, _) => (Failure, y1, calls, S reinits)
          | (ROk, rs') =>
              let '(f, t, y2, cs', calls') := substeps level nsub nsub dt1 0 y1 cs calls in
              if (0 <=? f)%Z then (Success, y2, calls', S reinits)
              else levels left' (S level) f y2 dt1 t y_init dt_init cs' rs' calls' (S reinits)
          end
      end
  end.

(* Naunet::Solve (dense / sparse): first call, then the ladder; the initial state is logged on failure *)
Definition solve (dt y0 : Q) (cs : list outcome) (rs : list routcome) : result * Q * nat * nat * option Q :=
  let '(f, t, y, cs') := cvode 0 dt y0 cs in
  if (0 <=? f)%Z then (Success, y, 1%nat, 0%nat, None)
  else
    let '(res, y', calls, reinits) := levels 5 1 f y dt t y0 dt cs' rs 1 0 in
    (res, y', calls, reinits, match res with Failure => Some y0 | Success => None end).
End Ladder.

(* the cuSPARSE branch of Solve: the flag of CVode is never looked at *)
Definition solve_cusparse (dt y0 : Q) (cs : list outcome) : result * Q :=
  let '(f, t, y, _) := cvode 0 dt y0 cs in (Success, y).

(* Odeint: the observer is called once per accepted step and throws beyond mxsteps *)
Definition solve_odeint (mxsteps nsteps : nat) : result :=
  if Nat.ltb mxsteps nsteps then Failure else Success.

(** the Odeint object over a history of calls: Init and Reset store the step budget, every Solve is judged against
    the budget in force (the last one stored) *)
Inductive ocall := OInit (mxsteps : nat) | OReset (mxsteps : nat) | OSolve (nsteps : nat).
Fixpoint odeint_history (budget : nat) (cs : list ocall) : list result :=
  match cs with
  | [] => []
  | OInit b :: r => odeint_history b r
  | OReset b :: r => odeint_history b r
  | OSolve n :: r => solve_odeint budget n :: odeint_history budget r
  end.
