(** L10: symbol registries and the declaration order of the generated EvalRates unit — mirrors
    Component.register / params / deriveds / constants, utilities._collect_variable_items and the
    order in which naunet_rates.cpp.j2 declares things: fixed names, constants and index macros,
    then every parameter, then every derived quantity (each may use what was declared before it),
    then the rate assignments.  Executable definitions only. *)
From Coq Require Import List Arith Bool String Ascii.
From Naunet Require Import Lib.ListX Lib.PyStr Model.CExpr.
Import ListNotations.
Open Scope string_scope.
Open Scope list_scope.

Inductive vkind := KConst | KParam | KDerived.
Record regvar := { rv_name : string; rv_symbol : string; rv_value : string; rv_kind : vkind }.
Definition registry := list regvar.       (* an OrderedDict keyed by rv_name *)

(* Component.register(name, (symbol, value, type), force_overwrite) *)
Fixpoint reg_set (v : regvar) (r : registry) : registry :=
  match r with
  | [] => [v]
  | x :: t => if String.eqb (rv_name x) (rv_name v) then v :: t else x :: reg_set v t
  end.
Definition register (v : regvar) (force : bool) (r : registry) : registry :=
  if existsb (fun x => String.eqb (rv_name x) (rv_name v)) r && negb force then r else reg_set v r.
Definition unregister (name : string) (r : registry) : registry :=
  filter (fun x => negb (String.eqb (rv_name x) name)) r.

Definition kind_eqb (a b : vkind) : bool :=
  match a, b with KConst, KConst | KParam, KParam | KDerived, KDerived => true | _, _ => false end.

(* dict assignment d[k] = v: first position kept, value replaced *)
Fixpoint dset (k v : string) (d : list (string * string)) : list (string * string) :=
  match d with
  | [] => [(k, v)]
  | (k', v') :: t => if String.eqb k' k then (k', v) :: t else (k', v') :: dset k v t
  end.

(* Component.params / deriveds / constants: {sym.symbol: sym.value ...} *)
Definition by_kind (k : vkind) (r : registry) : list (string * string) :=
  fold_left (fun d x => if kind_eqb (rv_kind x) k then dset (rv_symbol x) (rv_value x) d else d) r [].

(* _collect_variable_items(complist, var_type) *)
Definition collect (k : vkind) (comps : list registry) : list (string * string) :=
  fold_left (fun d c => fold_left (fun d' kv => dset (fst kv) (snd kv) d') (by_kind k c) d) comps [].

(** identifiers used by a C expression text *)
Definition idents (s : string) : list string :=
  flat_map (fun tk => match tk with TId x => [str x] | _ => [] end) (lex (tx s)).

(* names every EvalRates unit can use: physical constants of naunet_constants, libm, the helper
   functions of naunet_physics, the function's own parameters *)
Definition fixed_names : list string :=
  ["pi"; "amu"; "me"; "meu"; "mp"; "mn"; "mh"; "echarge"; "kerg"; "hbar";
   "exp"; "pow"; "sqrt"; "log"; "log10"; "fmin"; "fmax"; "fabs";
   "GetElementAbund"; "GetMantleDens"; "GetHNuclei"; "GetMu"; "GetGamma"; "GetNumDens"; "GetShieldingFactor";
   "GetH2shielding"; "GetCOshielding"; "GetN2shielding"; "GetGrainScattering"; "GetCharactWavelength";
   "k"; "kh"; "kc"; "y"; "u_data"; "NREACTIONS"; "NEQUATIONS"; "NSPECIES"; "NHEATPROCS"; "NCOOLPROCS";
   "if"].    (* k / kh / kc: the array parameter of EvalRates / EvalHeatingRates / EvalCoolingRates; "if": the window guard *)

Definition subset (a b : list string) : bool := forallb (fun x => memb String.eqb x b) a.
Fixpoint nodupb (l : list string) : bool :=
  match l with [] => true | x :: r => negb (memb String.eqb x r) && nodupb r end.

(* deriveds are declared in order, each after everything before it *)
Fixpoint deriveds_closed (scope : list string) (ds : list (string * string)) : bool :=
  match ds with
  | [] => true
  | (k, v) :: r => subset (idents v) scope && deriveds_closed (scope ++ [k]) r
  end.

Definition unit_closed (macros : list string) (comps : list registry) (uses : list string) : bool :=
  let consts := map fst (collect KConst comps) in
  let params := map fst (collect KParam comps) in
  let ders := collect KDerived comps in
  let scope0 := fixed_names ++ macros ++ consts ++ params in
  nodupb (consts ++ params ++ map fst ders) &&
  deriveds_closed scope0 ders &&
  forallb (fun u => subset (idents u) (scope0 ++ map fst ders)) uses.

(* what is used but not declared (for the report) *)
Definition undeclared (macros : list string) (comps : list registry) (uses : list string) : list string :=
  let consts := map fst (collect KConst comps) in
  let params := map fst (collect KParam comps) in
  let ders := collect KDerived comps in
  let scope0 := fixed_names ++ macros ++ consts ++ params in
  let fix go (scope : list string) (ds : list (string * string)) : list string :=
      match ds with
      | [] => []
      | (k, v) :: r => filter (fun x => negb (memb String.eqb x scope)) (idents v) ++ go (scope ++ [k]) r
      end in
  go scope0 ders ++ flat_map (fun u => filter (fun x => negb (memb String.eqb x (scope0 ++ map fst ders))) (idents u)) uses.
