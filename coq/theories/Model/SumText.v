(** Sums of products / quotients of atomic operands as text (C04 helper statements,
    C16 renormalisation texts): operands are array references a[<identifier>], printed
    numbers (magnitude atoms) and identifiers (identifier atoms); "sp" says whether the
    generator writes blanks around * and /.  Executable definitions only. *)
From Coq Require Import List Arith Bool String Ascii.
From Naunet Require Import Lib.ListX Lib.PyStr Model.CExpr Model.OdeText.
Import ListNotations.

Inductive aname := NAb | NRptr | NY.
Definition aname_chars (a : aname) : list ascii :=
  match a with NAb => chars "ab" | NRptr => chars "rptr" | NY => chars "y" end.
Inductive opd := OArr (a : aname) (i : nat)      (* a[<identifier atom i>] *)
               | OMag (i : nat)                   (* a printed number *)
               | ONm (i : nat).                   (* an identifier *)

Definition opd_txt (o : opd) : txt :=
  match o with
  | OArr a i => (map C (aname_chars a) ++ [C "["%char; N i; C "]"%char])%list
  | OMag i => [M i]
  | ONm i => [N i]
  end.

Definition link := (bool * opd)%type.            (* true = division *)
Definition op_char (d : bool) : ascii := if d then "/"%char else "*"%char.

Inductive smd := SLit (s : list ascii) | SChain (o : opd) (ls : list link).

Definition more := (bool * smd)%type.            (* true = minus *)

Definition link_txt (sp : bool) (l : link) : txt :=
  ((if sp then [C " "%char; C (op_char (fst l)); C " "%char] else [C (op_char (fst l))]) ++ opd_txt (snd l))%list.
Definition links_txt (sp : bool) (ls : list link) : txt := flat_map (link_txt sp) ls.
Definition smd_txt (sp : bool) (x : smd) : txt :=
  match x with SLit s => map C s | SChain o ls => (opd_txt o ++ links_txt sp ls)%list end.
Definition more_txt (sp : bool) (m : more) : txt :=
  ([C " "%char; C (if fst m then "-"%char else "+"%char); C " "%char] ++ smd_txt sp (snd m))%list.
Definition mores_txt (sp : bool) (ms : list more) : txt := flat_map (more_txt sp) ms.
Definition gsum_txt (sp : bool) (x : smd) (ms : list more) : txt := (smd_txt sp x ++ mores_txt sp ms)%list.
