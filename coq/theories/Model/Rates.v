(** L5 (part): assignment of rate coefficients — mirrors
    TemplateLoader._assign_rates, the rate-modifier overwrite in
    _prepare_ode_content and the re-indexing decision of TemplateLoader.render.
    Executable definitions only.  Temperatures are exact rationals (every float is
    one); rate expressions are opaque texts. *)
From Coq Require Import List Arith Bool String ZArith QArith.
From Naunet Require Import Lib.ListX.
Import ListNotations.

Inductive guard : Type :=
| NoGuard
| Lower (tmin : Q)                (* if (Tgas>=tmin) *)
| Upper (tmax : Q)                (* if (Tgas<tmax) *)
| Both (tmin tmax : Q).           (* if (Tgas>=tmin && Tgas<tmax) *)

Record rate_stmt := { rs_guard : guard; rs_index : nat; rs_expr : string }.

Definition Qpos_b (x : Q) : bool := negb (Qle_bool x 0).     (* x > 0 *)

Definition mk_guard (tmin tmax : Q) : guard :=
  match Qpos_b tmin, Qpos_b tmax with
  | true, true => Both tmin tmax
  | true, false => Lower tmin
  | false, true => Upper tmax
  | false, false => NoGuard
  end.

Record rate_src := { r_tmin : Q; r_tmax : Q; r_expr : string }.

Definition assign_rates (rs : list rate_src) : list rate_stmt :=
  map (fun p : nat * rate_src =>
         {| rs_guard := mk_guard (r_tmin (snd p)) (r_tmax (snd p));
            rs_index := fst p; rs_expr := r_expr (snd p) |})
      (enumerate rs).

(** for key, value in rate_modifier.items(): if key == reac.idxfromfile:
      rateeqns[idx] = f"k[{idx}] = {value};"      (a later key overwrites an earlier) *)
Fixpoint last_match (ix : Z) (mods : list (Z * string)) : option string :=
  match mods with
  | [] => None
  | (k, v) :: r => match last_match ix r with
                   | Some v' => Some v'
                   | None => if Z.eqb k ix then Some v else None
                   end
  end.

Definition overwrite_one (mods : list (Z * string)) (pos : nat) (ix : Z) (e : rate_stmt) : rate_stmt :=
  fold_left (fun acc kv => if Z.eqb (fst kv) ix
                           then {| rs_guard := NoGuard; rs_index := pos; rs_expr := snd kv |}
                           else acc) mods e.

Fixpoint apply_rate_mods_from (pos : nat) (mods : list (Z * string)) (idxs : list Z)
         (eqns : list rate_stmt) : list rate_stmt :=
  match idxs, eqns with
  | ix :: ir, e :: er => overwrite_one mods pos ix e :: apply_rate_mods_from (S pos) mods ir er
  | _, _ => []
  end.
Definition apply_rate_mods := apply_rate_mods_from 0.

(** TemplateLoader.render: reindex iff every reaction has index -1 *)
Definition render_indices (idxs : list Z) : list Z :=
  if forallb (Z.eqb (-1)) idxs then map Z.of_nat (seq 0 (List.length idxs)) else idxs.

(** semantics of one generated assignment, given that k[] was initialised to 0
    ("realtype k[NREACTIONS] = {0.0};") and the value [v] of the expression *)
Definition Qlt_b (a b : Q) : bool := negb (Qle_bool b a).
Definition guard_holds (g : guard) (T : Q) : bool :=
  match g with
  | NoGuard => true
  | Lower a => Qle_bool a T
  | Upper b => Qlt_b T b
  | Both a b => Qle_bool a T && Qlt_b T b
  end.
Definition stmt_value (s : rate_stmt) (T : Q) (v : Q) : Q :=
  if guard_holds (rs_guard s) T then v else 0%Q.

(** the property's reading of a window: a bound <= 0 means unbounded *)
Definition active (tmin tmax T : Q) : bool :=
  (Qle_bool tmin 0 || Qle_bool tmin T) && (Qle_bool tmax 0 || Qlt_b T tmax).

(** statements as the rendered routine may write them: an assignment under any nesting of
    guards without else branches ("if (A) { if (B) { k[i] = e; } }"); k[] initialised to 0 *)
Inductive nstmt : Type :=
| NAssign (i : nat) (e : string)
| NIf (g : guard) (body : nstmt).
Fixpoint nstmt_value (s : nstmt) (T v : Q) : Q :=
  match s with
  | NAssign _ _ => v
  | NIf g b => if guard_holds g T then nstmt_value b T v else 0%Q
  end.
Fixpoint nstmt_guards (s : nstmt) : list guard :=
  match s with NAssign _ _ => [] | NIf g b => g :: nstmt_guards b end.
