(** L2: the native exchange format, writing side — mirrors Reaction.__format__("naunet")
    and Network.write.  Numbers are the *printed* texts (what %10.3e, %9.2f, %d produce);
    CPython's float formatting is not modelled.  Executable definitions only. *)
From Coq Require Import List Arith Bool String Ascii ZArith.
From Naunet Require Import Lib.ListX Lib.PyStr Model.Decode.
Import ListNotations.
Open Scope string_scope.

Record nrec := {
  n_idx : string;            (* str(idxfromfile) *)
  n_reac : list string; n_prod : list string;     (* species names *)
  n_a : string; n_b : string; n_c : string;       (* "%10.3e" *)
  n_lt : string; n_ut : string;                   (* "%9.2f" *)
  n_type : string;                                (* str(int(reaction_type)) *)
  n_source : string;
}.

(* f"{x:>w}" and f"{x:<w}": pad to width w, never truncate *)
Definition rjust (w : nat) (x : string) : string := str (repeat_char " "%char (w - String.length x) ++ chars x).
Definition ljust (w : nat) (x : string) : string := str (chars x ++ repeat_char " "%char (w - String.length x)).

(* _fill_list(orig, n, dummy) *)
Definition fill_list (orig : list string) (n : nat) (dummy : string) : list string :=
  orig ++ repeat dummy (n - List.length orig).

(* sorted(self.reactants): Species.__lt__ compares names *)
Definition sort_names (l : list string) : list string := isort string_leb l.

Definition native_fields (r : nrec) : list string :=
  [ljust 5 (n_idx r)] ++
  fill_list (map (rjust 12) (sort_names (n_reac r))) 3 (rjust 12 "") ++
  fill_list (map (rjust 12) (sort_names (n_prod r))) 5 (rjust 12 "") ++
  [n_a r; n_b r; n_c r; n_lt r; n_ut r; rjust 4 (n_type r); rjust 8 (n_source r)].

Definition fmt_native (r : nrec) : string := join ","%char (native_fields r).

(* Network.write(filename, "naunet"): one line per reaction, in list order *)
Definition write_native (rs : list nrec) : list string := map (fun r => fmt_native r ++ "
") rs.

(* what reading a written line gives back, as a record of the same kind (numbers keep their
   printed text: CPython's float(text) followed by the same format is assumed to reproduce it) *)
Definition reread (pseudo : list string) (line : string) : option nrec :=
  match decode_native pseudo line with
  | inr d => Some {| n_idx := strip (d_idx d); n_reac := d_reac d; n_prod := d_prod d;
                     n_a := d_alpha d; n_b := d_beta d; n_c := d_gamma d; n_lt := d_tmin d; n_ut := d_tmax d;
                     n_type := strip (d_code d); n_source := d_source d |}
  | inl _ => None
  end.
