(** L6: KROME rate expressions, Fortran -> C — mirrors the regex pre-pass of
    KROMEReaction.rateexpr and the CExpression transformer of converter.py on the parse tree
    that Lark returns (the tree is an INPUT: Lark's Earley disambiguation is not modelled).
    The Fortran meaning of the source text is given by an independent precedence parser
    (the power operator right-associative and above unary minus, as in Fortran); the C meaning of the output by
    the C parser of Model.CExpr.  Executable definitions only. *)
From Coq Require Import List Arith Bool String Ascii.
From Naunet Require Import Lib.ListX Lib.PyStr Model.CExpr.
Import ListNotations.
Open Scope string_scope.

(** ** the parse tree of fgrammar *)
Inductive ftree :=
| FTok (s : string)                              (* a terminal: its text *)
| FNode (rule : string) (kids : list ftree).     (* expression, multiply, power, func, variable, listvar, index, scientific, atom *)

(** ** ExpressionConverter.CExpression (bottom-up string transformer) *)
Fixpoint concat_str (l : list string) : string :=
  match l with [] => "" | x :: r => x ++ concat_str r end.
Fixpoint join_sp (l : list string) : string :=
  match l with [] => "" | [x] => x | x :: r => x ++ " " ++ join_sp r end.

Fixpoint to_c (t : ftree) : string :=
  match t with
  | FTok s => if String.eqb s "," then ", " else if String.eqb s "*" then " * " else s     (* COMMA / TIMES callbacks *)
  | FNode rule kids =>
      let ks := map to_c kids in
      if String.eqb rule "expression" then join_sp ks
      else if String.eqb rule "power" then "pow(" ++ replace "**" ", " (concat_str ks) ++ ")"
      else if String.eqb rule "listvar" then
        replace "n" "y" (replace ")" "]" (replace "(" "[" (concat_str ks)))
      else if String.eqb rule "index" then "IDX" ++ concat_str ks
      else concat_str ks            (* multiply, func, variable, atom, scientific *)
  end.

(* the source text the tree was parsed from (white space dropped) *)
Fixpoint yield_f (t : ftree) : string :=
  match t with
  | FTok s => s
  | FNode rule kids => (if String.eqb rule "index" then "idx" else "") ++ concat_str (map yield_f kids)
  end.

(** ** the regex pre-pass *)
(* re.sub(r"(\d\.?)d(\-?\d)", r"\1e\2", s): a 'd' between a digit (optionally followed by '.') and an
   optionally negative digit becomes 'e'.  [prev2 prev] = the two characters before the cursor
   in the ORIGINAL text (matches do not overlap in the inputs considered). *)
Fixpoint d_to_e (prev2 prev : option ascii) (s : list ascii) : list ascii :=
  match s with
  | [] => []
  | c :: r =>
      let before := match prev with
                    | Some p => is_digit p || (Ascii.eqb p "."%char && match prev2 with Some q => is_digit q | None => false end)
                    | None => false
                    end in
      let after := match r with
                   | x :: r' => is_digit x || (Ascii.eqb x "-"%char && match r' with y :: _ => is_digit y | [] => false end)
                   | [] => false
                   end in
      (if Ascii.eqb c "d"%char && before && after then "e"%char else c) :: d_to_e prev (Some c) r
  end.

(* re.sub(r"(idx_.?)X", r"\1" + repl, s) for a one-character X: "idx_", at most one more character, X *)
Fixpoint idx_sub (fuel : nat) (x : ascii) (repl : list ascii) (s : list ascii) : list ascii :=
  match fuel with
  | O => s
  | S f =>
      match s with
      | [] => []
      | c :: r =>
          if starts_with (chars "idx_") s then
            match skipn 4 s with
            | a :: b :: rest =>
                if Ascii.eqb b x && negb (Ascii.eqb a "010"%char) then (chars "idx_" ++ [a] ++ repl ++ idx_sub f x repl rest)%list
                else if Ascii.eqb a x then (chars "idx_" ++ repl ++ idx_sub f x repl (b :: rest))%list
                else c :: idx_sub f x repl r
            | [a] => if Ascii.eqb a x then (chars "idx_" ++ repl)%list else c :: idx_sub f x repl r
            | [] => s
            end
          else c :: idx_sub f x repl r
      end
  end.

Definition prepass (rate : string) : string :=
  let s0 := d_to_e None None (chars rate) in
  let s1 := idx_sub (List.length s0) "p"%char (chars "II") s0 in
  let s2 := idx_sub (List.length s1 + 2) "m"%char (chars "M") s1 in
  let s3 := idx_sub (List.length s2 + 2) ")"%char (chars "I)") s2 in
  replace "Hnuclei" "nH" (str s3).

(** ** normalised expressions: the common ground of the two readings *)
Inductive nx :=
| NLit (s : list ascii) | NVar (s : list ascii) | NAb (species : list ascii)
| NNeg (a : nx) | NAdd (a b : nx) | NSub (a b : nx) | NMul (a b : nx) | NDiv (a b : nx) | NPow (a b : nx)
| NCall (f : list ascii) (args : list nx).

(** ** Fortran reading: tokens of Model.CExpr.lex, Fortran precedence *)
Definition is_pow (ts : list tok) : option (list tok) :=
  match ts with TOp "*"%char :: TOp "*"%char :: r => Some r | _ => None end.

(* the species a KROME index name stands for, as a naunet alias: an alias is kept; a bare name
   gets the neutral suffix I; trailing p / m count positive / negative charges *)
Fixpoint strip_suffix (c : ascii) (rev_name : list ascii) : nat * list ascii :=
  match rev_name with
  | x :: r => if Ascii.eqb x c then let '(n, rest) := strip_suffix c r in (S n, rest) else (0, rev_name)
  | [] => (0, [])
  end.
Definition expected_alias (name : list ascii) : list ascii :=
  let rn := rev name in
  match rn with
  | "I"%char :: _ | "M"%char :: _ => name
  | "p"%char :: _ => let '(n, rest) := strip_suffix "p"%char rn in (rev rest ++ repeat_char "I"%char (S n))%list
  | "m"%char :: _ => let '(n, rest) := strip_suffix "m"%char rn in (rev rest ++ repeat_char "M"%char n)%list
  | _ => (name ++ ["I"%char])%list
  end.

Fixpoint fexpr (n : nat) (ts : list tok) : option (nx * list tok) :=
  match n with
  | O => None
  | S n =>
      (* an optional leading sign applies to the whole first term *)
      let first :=
          match ts with
          | TOp "-"%char :: r => match fterm n r with Some (e, r') => Some (NNeg e, r') | None => None end
          | TOp "+"%char :: r => fterm n r
          | _ => fterm n ts
          end in
      match first with Some (l, r) => fexpr_rest n l r | None => None end
  end
with fexpr_rest (n : nat) (l : nx) (ts : list tok) : option (nx * list tok) :=
  match n with
  | O => None
  | S n =>
      match ts with
      | TOp "+"%char :: r => match fterm n r with Some (e, r') => fexpr_rest n (NAdd l e) r' | None => None end
      | TOp "-"%char :: r => match fterm n r with Some (e, r') => fexpr_rest n (NSub l e) r' | None => None end
      | _ => Some (l, ts)
      end
  end
with fterm (n : nat) (ts : list tok) : option (nx * list tok) :=
  match n with
  | O => None
  | S n => match ffactor n ts with Some (l, r) => fterm_rest n l r | None => None end
  end
with fterm_rest (n : nat) (l : nx) (ts : list tok) : option (nx * list tok) :=
  match n with
  | O => None
  | S n =>
      match is_pow ts with
      | Some _ => Some (l, ts)
      | None =>
          match ts with
          | TOp "*"%char :: r => match fsigned n r with Some (e, r') => fterm_rest n (NMul l e) r' | None => None end
          | TOp "/"%char :: r => match fsigned n r with Some (e, r') => fterm_rest n (NDiv l e) r' | None => None end
          | _ => Some (l, ts)
          end
      end
  end
with fsigned (n : nat) (ts : list tok) : option (nx * list tok) :=     (* common extension: a sign directly after an operator *)
  match n with
  | O => None
  | S n =>
      match ts with
      | TOp "-"%char :: r => match ffactor n r with Some (e, r') => Some (NNeg e, r') | None => None end
      | TOp "+"%char :: r => ffactor n r
      | _ => ffactor n ts
      end
  end
with ffactor (n : nat) (ts : list tok) : option (nx * list tok) :=     (* primary, optionally raised to a (signed) factor: right-associative *)
  match n with
  | O => None
  | S n =>
      match fprimary n ts with
      | Some (b, r) =>
          match is_pow r with
          | Some r' => match fsigned n r' with Some (e, r'') => Some (NPow b e, r'') | None => None end
          | None => Some (b, r)
          end
      | None => None
      end
  end
with fprimary (n : nat) (ts : list tok) : option (nx * list tok) :=
  match n with
  | O => None
  | S n =>
      match ts with
      | TNum s :: r => Some (NLit s, r)
      | TId f :: TOp "("%char :: r =>
          match fargs n r with
          | Some (args, TOp ")"%char :: r') =>
              match args with
              | [NVar v] =>
                  if list_eqb Ascii.eqb f (chars "n") && starts_with (chars "idx_") v
                  then Some (NAb (expected_alias (skipn 4 v)), r')
                  else Some (NCall f args, r')
              | _ => Some (NCall f args, r')
              end
          | _ => None
          end
      | TId v :: r => Some (NVar v, r)
      | TOp "("%char :: r =>
          match fexpr n r with
          | Some (e, TOp ")"%char :: r') => Some (e, r')
          | _ => None
          end
      | _ => None
      end
  end
with fargs (n : nat) (ts : list tok) : option (list nx * list tok) :=
  match n with
  | O => None
  | S n =>
      match fexpr n ts with
      | Some (e, TOp ","%char :: r) => match fargs n r with Some (es, r') => Some (e :: es, r') | None => None end
      | Some (e, r) => Some ([e], r)
      | None => None
      end
  end.

Definition parse_fortran (s : string) : option nx :=
  let ts := lex (tx s) in
  match fexpr (10 * List.length ts + 10) ts with
  | Some (e, []) => Some e
  | _ => None
  end.

(** ** C reading: Model.CExpr.parse, then pow(a, b) and y[IDX_x] recognised *)
Fixpoint all_some_nx (l : list (option nx)) : option (list nx) :=
  match l with
  | [] => Some []
  | Some x :: r => match all_some_nx r with Some r' => Some (x :: r') | None => None end
  | None :: _ => None
  end.

Fixpoint of_c (e : ex) : option nx :=
  match e with
  | ELit s => Some (NLit s)
  | EVar s => Some (NVar s)
  | EMag _ | EName _ | ERel _ _ _ | ECond _ _ _ => None
  | ENeg a => option_map NNeg (of_c a)
  | EPos a => of_c a
  | EBin op a b =>
      match of_c a, of_c b with
      | Some x, Some y =>
          match op with
          | "+"%char => Some (NAdd x y) | "-"%char => Some (NSub x y)
          | "*"%char => Some (NMul x y) | "/"%char => Some (NDiv x y)
          | _ => None
          end
      | _, _ => None
      end
  | ECall f args =>
      match all_some_nx (map of_c args) with
      | Some [a; b] => if list_eqb Ascii.eqb f (chars "pow") then Some (NPow a b) else Some (NCall f [a; b])
      | Some l => Some (NCall f l)
      | None => None
      end
  | EIdx a i =>
      match i with
      | EVar v => if list_eqb Ascii.eqb a (chars "y") && starts_with (chars "IDX_") v then Some (NAb (skipn 4 v)) else None
      | _ => None
      end
  end.

Definition parse_c (s : string) : option nx :=
  match parse (tx s) with Some e => of_c e | None => None end.

(** ** signs float to the top of products and quotients *)
Fixpoint float_neg (e : nx) : nx :=
  match e with
  | NLit _ | NVar _ | NAb _ => e
  | NNeg a => match float_neg a with NNeg a' => a' | a' => NNeg a' end
  | NAdd a b => NAdd (float_neg a) (float_neg b)
  | NSub a b => NSub (float_neg a) (float_neg b)
  | NMul a b =>
      match float_neg a, float_neg b with
      | NNeg a', NNeg b' => NMul a' b'
      | NNeg a', b' => NNeg (NMul a' b')
      | a', NNeg b' => NNeg (NMul a' b')
      | a', b' => NMul a' b'
      end
  | NDiv a b =>
      match float_neg a, float_neg b with
      | NNeg a', NNeg b' => NDiv a' b'
      | NNeg a', b' => NNeg (NDiv a' b')
      | a', NNeg b' => NNeg (NDiv a' b')
      | a', b' => NDiv a' b'
      end
  | NPow a b => NPow (float_neg a) (float_neg b)
  | NCall f args => NCall f (map float_neg args)
  end.

Fixpoint nx_eqb (a b : nx) : bool :=
  match a, b with
  | NLit s, NLit t | NVar s, NVar t | NAb s, NAb t => list_eqb Ascii.eqb s t
  | NNeg x, NNeg y => nx_eqb x y
  | NAdd x1 x2, NAdd y1 y2 | NSub x1 x2, NSub y1 y2 | NMul x1 x2, NMul y1 y2
  | NDiv x1 x2, NDiv y1 y2 | NPow x1 x2, NPow y1 y2 => nx_eqb x1 y1 && nx_eqb x2 y2
  | NCall f xs, NCall g ys =>
      list_eqb Ascii.eqb f g &&
      (fix go (l1 l2 : list nx) : bool :=
         match l1, l2 with
         | [], [] => true
         | x :: r1, y :: r2 => nx_eqb x y && go r1 r2
         | _, _ => false
         end) xs ys
  | _, _ => false
  end.

(** ** the validator: does the C output read (as C) like the Fortran source reads (as Fortran)? *)
Definition agree (f c : nx) : bool := nx_eqb (float_neg f) (float_neg c).
Definition validate (t : ftree) : bool :=
  match parse_fortran (yield_f t), parse_c (to_c t) with
  | Some f, Some c => agree f c
  | _, _ => false
  end.
