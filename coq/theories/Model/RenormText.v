(** C16 (text level): the matrix entries "0.0 + q * ab[IDX_k] / d / Hnuclei + ..." and
    the factors "q * rptr[IDX_ELEM_j] / d + ..." as atom strings.  Executable definitions only. *)
From Coq Require Import List Arith Bool String Ascii QArith.
From Naunet Require Import Lib.ListX Lib.PyStr Model.CExpr Model.OdeText Model.SumText Model.Renorm.
Import ListNotations.

(** text terms: (atom of q, index k, atom of d) *)
Definition tterm3 := (nat * nat * nat)%type.
Definition mterm_more (hn : nat) (t : tterm3) : more :=
  (false, SChain (OMag (fst (fst t))) [(false, OArr NAb (snd (fst t))); (true, OMag (snd t)); (true, ONm hn)]).
Definition fterm_smd (t : tterm3) : smd :=
  SChain (OMag (fst (fst t))) [(false, OArr NRptr (snd (fst t))); (true, OMag (snd t))].

(* "0.0 + q * ab[IDX_k] / d / Hnuclei + ..." *)
Definition matrix_entry_txt (hn : nat) (l : list tterm3) : txt := gsum_txt true (SLit zero_lit) (map (mterm_more hn) l).
(* "q * rptr[IDX_ELEM_j] / d + ..."  (a non-empty list) *)
Definition factor_txt (l : list tterm3) : option txt :=
  match l with [] => None | t :: r => Some (gsum_txt true (fterm_smd t) (map (fun u => (false, fterm_smd u)) r)) end.

(* a term (q, k, d) at position p of the model's list is written with the magnitude atoms 2p (q) and 2p+1 (d) *)
Fixpoint atoms_from (a : nat) (l : list term) : list tterm3 :=
  match l with [] => [] | t :: r => (2 * a, snd (fst t), 2 * a + 1)%nat :: atoms_from (S a) r end.
