(** L5: grain-surface rate-coefficient strings — mirrors Grain / HH93Grain / RR07Grain /
    RR07XGrain .rate_* and the dispatch of Grain.rateexpr, as atom strings.  Atoms:
    M 0 = |alpha| (with its sign class); M 3, M 4, M 5 = the first species' mass number,
    binding energy and photodesorption yield as printed; M 6, M 7 = the second species' mass
    number and binding energy.  Symbol names come from the reaction's and the grain's
    registries (they differ between formats and carry the grain group).
    Executable definitions only. *)
From Coq Require Import List Arith Bool String Ascii ZArith.
From Naunet Require Import Lib.ListX Lib.PyStr Model.CExpr Model.RateGas.
Import ListNotations.
Open Scope string_scope.
Open Scope list_scope.

(** identifier atoms: what reac.symbols.<x>.symbol / self.symbols.<x>.symbol resolve to *)
Definition Ntgas := 0.  Definition Ntdust := 1.  Definition Ncrrate := 2.  Definition Nzism := 3.
Definition Nradfield := 4.  Definition Nav := 5.  Definition Nh2form := 6.
Definition NrG := 10.  Definition Ngdens := 11.  Definition Nopt_frz := 12.  Definition Nopt_thd := 13.
Definition Ncov := 14.  Definition NnMono := 15.  Definition Nsites := 16.  Definition Ndensites := 17.
Definition Nopt_uvd := 18.  Definition Ngarea := 19.  Definition Nopt_crd := 20.  Definition Nduty := 21.
Definition NTcr := 22.  Definition Nfreq := 23.  Definition Nquan := 24.  Definition Nhop := 25.
Definition Nunisites := 26.  Definition Ngxsec := 27.  Definition Nfr := 28.  Definition Nmant := 29.
Definition Nmantabund := 30.  Definition Neb_uvd := 31.  Definition Nuvcreff := 32.  Definition Neb_crd := 33.
Definition Ncrdeseff := 34.  Definition Nopt_h2d := 35.  Definition Neb_h2d := 36.  Definition Nh2deseff := 37.
Definition Neb1 := 38.      (* eb_<alias of the first species> *)
Definition Nopt_thd_x := 39. (* RR07X registers opt_thd without the group suffix *)

Record rsyms := {            (* reac.symbols.<name>.symbol *)
  s_tgas : string; s_tdust : string; s_crrate : string; s_zism : string;
  s_radfield : string; s_av : string; s_h2form : string;
}.

(* the text of every identifier atom, for a reaction registry, a grain group suffix and eb_<alias> *)
Definition name_of (R : rsyms) (g eb1 : string) (i : nat) : string :=
  let gs := ["rG"; "gdens"; "opt_frz"; "opt_thd"; "cov"; "nMono"; "sites"; "densites"; "opt_uvd"; "garea"; "opt_crd"; "duty";
             "Tcr"; "freq"; "quan"; "hop"; "unisites"; "gxsec"; "fr"; "mant"; "mantabund"; "eb_uvd"; "uvcreff"; "eb_crd";
             "crdeseff"; "opt_h2d"; "eb_h2d"; "h2deseff"]%string in
  match i with
  | 0 => s_tgas R | 1 => s_tdust R | 2 => s_crrate R | 3 => s_zism R | 4 => s_radfield R | 5 => s_av R | 6 => s_h2form R
  | 38 => eb1 | 39 => "opt_thd"
  | _ => if Nat.leb 10 i then (nth (i - 10) gs "?" ++ g)%string else "?"
  end.

Section Grain.
Variable ka : cls.
Let a := coef ka 0.
Let A1 := [M 3].  Let E1 := [M 4].  Let Y1 := [M 5].  Let A2 := [M 6].  Let E2 := [M 7].
Let tgas := [N Ntgas].  Let tdust := [N Ntdust].  Let crrate := [N Ncrrate].
Let zism := [N Nzism].  Let radfield := [N Nradfield].  Let av := [N Nav].
Let r := [N NrG].  Let gdens := [N Ngdens].
Let star := tx " * ".

Fixpoint joinstar (ps : list txt) : txt :=
  match ps with
  | [] => []
  | p :: rest => match rest with [] => p | _ => p ++ star ++ joinstar rest end
  end.

Definition thermal_speed : txt := tx "sqrt(8.0 * kerg * " ++ tgas ++ tx "/ (pi*amu*" ++ A1 ++ tx "))".

(** Grain (base) *)
Definition base_depletion : txt :=
  joinstar [a ++ tx " * pi * " ++ r ++ star ++ r ++ star ++ gdens; thermal_speed].

(** HH93Grain *)
Definition hh93_depletion : txt :=
  joinstar [[N Nopt_frz] ++ star ++ a ++ tx " * pi * " ++ r ++ star ++ r ++ star ++ gdens; thermal_speed].
Definition vibration : txt :=
  tx "sqrt(2.0*" ++ [N Nsites] ++ tx "*kerg*" ++ [N Neb1] ++ tx "/(pi*pi*amu*" ++ A1 ++ tx "))".
Definition hh93_thermal : txt :=
  joinstar [[N Nopt_thd] ++ star ++ [N Ncov]; [N NnMono] ++ star ++ [N Ndensites]; vibration;
            tx "exp(-" ++ [N Neb1] ++ tx "/(" ++ tdust ++ tx "))"].
Definition hh93_photon : txt :=
  [N Nopt_uvd] ++ star ++ [N Ncov] ++ tx " * (" ++
  radfield ++ tx "*habing*exp(-" ++ av ++ tx "*3.02) + crphot * (" ++ crrate ++ tx "/" ++ zism ++ tx ")" ++
  tx ") * " ++ Y1 ++ star ++ [N NnMono] ++ star ++ [N Ngarea].
Definition hh93_cosmicray : txt :=
  joinstar [[N Nopt_crd] ++ star ++ [N Ncov]; [N Nduty] ++ star ++ [N NnMono] ++ star ++ [N Ndensites];
            tx "(" ++ crrate ++ tx "/" ++ zism ++ tx ")"; vibration;
            tx "exp(-" ++ [N Neb1] ++ tx "/" ++ [N NTcr] ++ tx ")"].
Definition hh93_ecapture : txt :=
  tx "pi * " ++ r ++ star ++ r ++ tx " * sqrt(8.0*kerg*(" ++ tgas ++ tx ")/pi/amu/meu)".
Definition hh93_recombination : txt :=
  joinstar [a ++ tx " * pi * " ++ r ++ star ++ r ++ star ++ gdens;
            tx "sqrt(8.0*kerg*" ++ tgas ++ tx "/(pi*amu*" ++ A1 ++ tx "))";
            tx "(1.0 + pow(echarge, 2.0)/" ++ r ++ tx "/kerg/" ++ tgas ++ tx ")";
            tx "(1.0 + sqrt(2.0*pow(echarge, 2.0)/(" ++ r ++ tx "*kerg*" ++ tgas ++ tx "+2.0*pow(echarge, 2.0))))"].

(* _rate_surface: which of the two reactants is GH / GH2 decides where tunnelling enters *)
Inductive hvariant := HBoth | HFirst | HSecond | HNone.
Definition diffusion (E A : txt) : txt * txt :=
  let freq := [N Nfreq] ++ tx " * sqrt(" ++ E ++ tx "/" ++ A ++ tx ")" in
  (freq ++ tx " * exp(-" ++ E ++ tx "*" ++ [N Nhop] ++ tx "/" ++ tdust ++ tx ")/" ++ [N Nunisites],
   freq ++ tx " * exp(" ++ [N Nquan] ++ tx " * sqrt(" ++ [N Nhop] ++ tx "*" ++ A ++ tx "*" ++ E ++ tx ")) / " ++ [N Nunisites]).
Definition hh93_surface (v : hvariant) : txt :=
  let '(adiff, aquan) := diffusion E1 A1 in
  let '(bdiff, bquan) := diffusion E2 A2 in
  let kappa := tx "exp(-" ++ a ++ tx "/" ++ tdust ++ tx ")" in
  let kquan := tx "exp(" ++ [N Nquan] ++ tx " * sqrt(((" ++ A1 ++ tx "*" ++ A2 ++ tx ")/(" ++ A1 ++ tx "+" ++ A2 ++ tx "))*" ++ a ++ tx "))" in
  let fm := fun x y => tx "fmax(" ++ x ++ tx ", " ++ y ++ tx ")" in
  let tail := tx "pow((" ++ [N NnMono] ++ tx "*" ++ [N Ndensites] ++ tx "), 2.0) / " ++ gdens in
  let body :=
    match v with
    | HBoth => joinstar [fm kappa kquan; tx "(" ++ fm adiff aquan ++ tx "+" ++ fm bdiff bquan ++ tx ")"; tail]
    | HFirst => joinstar [fm kappa kquan; tx "(" ++ fm adiff aquan ++ tx "+" ++ bdiff ++ tx ")"; tail]
    | HSecond => joinstar [fm kappa kquan; tx "(" ++ adiff ++ tx "+" ++ fm bdiff bquan ++ tx ")"; tail]
    | HNone => joinstar [kappa ++ tx " * (" ++ adiff ++ tx "+" ++ bdiff ++ tx ")"; tail]
    end in
  joinstar [body; [N Ncov]; [N Ncov]].
Definition hh93_reactive (v : hvariant) : txt := tx "opt_rcd * branch * " ++ hh93_surface v.

(** RR07Grain *)
Inductive dvariant := DElectron | DNeutral | DIon.
Definition rr07_depletion (v : dvariant) : txt :=
  let head := tx "4.57e4 * " ++ a ++ star ++ [N Ngxsec] ++ star ++ [N Nfr] in
  let speed := tx "sqrt(" ++ tgas ++ tx " / " ++ A1 ++ tx ")" in
  let coulomb := tx "( 1.0 + 16.71e-4/(" ++ r ++ star ++ tgas ++ tx ") )" in
  match v with
  | DElectron => joinstar [head; coulomb]
  | DNeutral => joinstar [head; speed]
  | DIon => joinstar [head; speed; coulomb]
  end.
Definition guarded (ebmax : txt) (rate : txt) : txt :=
  [N Nmantabund] ++ tx " > 1e-30 ? (" ++ (ebmax ++ tx " >= " ++ E1 ++ tx " ? (" ++ rate ++ tx ") : 0.0") ++ tx ") : 0.0".
Definition rr07_photon : txt :=
  guarded ([N Neb_uvd])
    (joinstar [[N Nopt_uvd] ++ tx " * 4.875e3 * " ++ [N Ngxsec];
               tx "(((" ++ crrate ++ tx " / " ++ zism ++ tx ") + (" ++ radfield ++ tx " / " ++ [N Nuvcreff] ++ tx ") * exp(-1.8*" ++ av ++ tx ") )) * "
               ++ Y1 ++ tx " / " ++ [N Nmant]]).
Definition rr07_cosmicray : txt :=
  guarded ([N Neb_crd])
    (joinstar [[N Nopt_crd] ++ tx " * 4.0 * pi * " ++ [N Ncrdeseff]; tx "(" ++ crrate ++ tx " / " ++ zism ++ tx ")";
               tx "1.64e-4 * " ++ [N Ngxsec] ++ tx " / " ++ [N Nmant]]).
Definition rr07_h2 : txt :=
  guarded ([N Neb_h2d])
    ([N Nopt_h2d] ++ star ++ [N Nh2deseff] ++ star ++ [N Nh2form] ++ tx " * y[IDX_HI] / " ++ [N Nmant]).
(* RR07XGrain: opt_thd is registered without the group suffix *)
Definition rr07x_thermal : txt :=
  [N Nmantabund] ++ tx " > 1e-30 ? (" ++
  joinstar [[N Nopt_thd_x]; vibration; tx "2.0 * " ++ [N Ndensites]; tx "exp(-" ++ [N Neb1] ++ tx "/" ++ tdust ++ tx ")"] ++
  tx ") : 0.0".
End Grain.

(** Grain.rateexpr: dispatch by reaction type; NotImplemented -> refusal *)
Inductive gmodel := GBase | GHH93 | GRR07 | GRR07X.
Inductive gproc :=
| PRecombine | PFreeze | PThermal | PPhoton | PCosmicray | PH2 | PSurface | PReactive | PEcapture.

Definition implemented (m : gmodel) (p : gproc) : bool :=
  match m, p with
  | _, PFreeze => true
  | GHH93, (PThermal | PPhoton | PCosmicray | PEcapture | PRecombine | PSurface | PReactive) => true
  | (GRR07 | GRR07X), (PPhoton | PCosmicray | PH2) => true
  | GRR07X, PThermal => true
  | _, _ => false
  end.

Definition grain_rate (m : gmodel) (p : gproc) (ka : cls)
           (hv : hvariant) (dv : dvariant) : refusal + txt :=
  if negb (implemented m p) then inl RNotImplemented else
  inr (match m, p with
       | GBase, PFreeze => base_depletion ka
       | GHH93, PFreeze => hh93_depletion ka
       | GHH93, PThermal => hh93_thermal
       | GHH93, PPhoton => hh93_photon
       | GHH93, PCosmicray => hh93_cosmicray
       | GHH93, PEcapture => hh93_ecapture
       | GHH93, PRecombine => hh93_recombination ka
       | GHH93, PSurface => hh93_surface ka hv
       | GHH93, PReactive => hh93_reactive ka hv
       | (GRR07 | GRR07X), PFreeze => rr07_depletion ka dv
       | (GRR07 | GRR07X), PPhoton => rr07_photon
       | (GRR07 | GRR07X), PCosmicray => rr07_cosmicray
       | (GRR07 | GRR07X), PH2 => rr07_h2
       | GRR07X, PThermal => rr07x_thermal
       | _, _ => []
       end).

(** Species.binding_energy: the first truthy of (explicit, user table, RATE12 table) *)
Definition first_truthy {X} (truthy : X -> bool) (l : list (option X)) : option X :=
  fold_left (fun acc o => match acc with
                          | Some _ => acc
                          | None => match o with Some x => if truthy x then Some x else None | None => None end
                          end) l None.
