(** L3: the editable network container — mirrors Network._add_reaction,
    add_reaction, remove_reaction, the allowed_species / required_species setters,
    find_duplicate_reaction + remove_reaction, reindex, find_source_sink,
    where_species and the append steps of the `extend` command.
    Species are identity classes under Species.__eq__ (naturals); Python sets are
    duplicate-free lists.  Executable definitions only. *)
From Coq Require Import List Arith Bool ZArith String.
From Naunet Require Import Lib.ListX Model.Dup.
Import ListNotations.

Record rx := {
  rx_tag : nat;              (* which Python object this is (never used by the code) *)
  rx_idx : Z;                (* idxfromfile *)
  rx_key : rxn_key;          (* what Reaction.__eq__ looks at *)
}.
Definition rx_reac (r : rx) : list nat := k_reac (rx_key r).
Definition rx_prod (r : rx) : list nat := k_prod (rx_key r).
Definition rx_eqb (a b : rx) : bool := rxn_eqb (rx_key a) (rx_key b).

Record net := {
  rl : list rx;              (* reaction_list *)
  skipped : list rx;         (* _skipped_reactions *)
  reactants : list nat;      (* _reactants (a set) *)
  products : list nat;       (* _products  (a set) *)
  allowed : list nat;        (* _allowed_species *)
  required : list nat;       (* _required_species *)
}.

Definition empty_net (a q : list nat) : net :=
  {| rl := []; skipped := []; reactants := []; products := []; allowed := a; required := q |}.

Definition set_add (x : nat) (s : list nat) : list nat :=
  if memb Nat.eqb x s then s else s ++ [x].
Definition set_union (s t : list nat) : list nat := fold_left (fun acc x => set_add x acc) t s.

(* if self._allowed_species: all(rp in allowed for rp in reactants + products) *)
Definition allowed_ok (a : list nat) (r : rx) : bool :=
  match a with
  | [] => true
  | _ => forallb (fun s => memb Nat.eqb s a) (rx_reac r ++ rx_prod r)
  end.

Definition add_reaction (s : net) (r : rx) : net :=
  if allowed_ok (allowed s) r then
    {| rl := rl s ++ [r]; skipped := skipped s;
       reactants := set_union (reactants s) (rx_reac r);
       products := set_union (products s) (rx_prod r);
       allowed := allowed s; required := required s |}
  else
    {| rl := rl s; skipped := skipped s ++ [r];
       reactants := reactants s; products := products s;
       allowed := allowed s; required := required s |}.

(* after a removal the cached sets are rebuilt from the remaining reactions *)
Definition rebuild (s : net) (l : list rx) : net :=
  {| rl := l; skipped := skipped s;
     reactants := fold_left (fun acc r => set_union acc (rx_reac r)) l [];
     products := fold_left (fun acc r => set_union acc (rx_prod r)) l [];
     allowed := allowed s; required := required s |}.

Inductive op : Type :=
| Add (r : rx)
| RemoveIdx (i : nat)                 (* remove_reaction(int), 0 <= i < len *)
| RemoveIdxs (l : list nat)           (* remove_reaction([int, ...]) *)
| RemoveInst (r : rx)                 (* remove_reaction(Reaction) *)
| RemoveInsts (l : list rx)           (* remove_reaction([Reaction, ...]) *)
| SetAllowed (a : list nat)
| SetRequired (q : list nat)
| RemoveDups                          (* find_duplicate_reaction() + remove_reaction(dupidx) *)
| Reindex.

Definition reindex_list (l : list rx) : list rx :=
  map (fun p : nat * rx => {| rx_tag := rx_tag (snd p); rx_idx := Z.of_nat (fst p); rx_key := rx_key (snd p) |})
      (enumerate l).

Definition step (s : net) (o : op) : net :=
  match o with
  | Add r => add_reaction s r
  | RemoveIdx i => if Nat.ltb i (List.length (rl s)) then rebuild s (remove_nth i (rl s)) else s
  | RemoveIdxs l => rebuild s (remove_idxs l (rl s))
  | RemoveInst r => rebuild s (filter (fun x => negb (rx_eqb x r)) (rl s))
  | RemoveInsts l => rebuild s (filter (fun x => negb (existsb (rx_eqb x) l)) (rl s))
  | SetAllowed a =>
      fold_left add_reaction (rl s ++ skipped s) (empty_net a (required s))
  | SetRequired q =>
      {| rl := rl s; skipped := skipped s; reactants := reactants s; products := products s;
         allowed := allowed s; required := q |}
  | RemoveDups =>
      rebuild s (remove_idxs (fst (find_dup rxn_eqb (map rx_key (rl s)))) (rl s))
  | Reindex =>
      {| rl := reindex_list (rl s); skipped := skipped s; reactants := reactants s;
         products := products s; allowed := allowed s; required := required s |}
  end.

Definition run (s : net) (ops : list op) : net := fold_left step ops s.

(** observations *)
Definition set_diff (s t : list nat) : list nat := filter (fun x => negb (memb Nat.eqb x t)) s.
Definition sources (s : net) : list nat := set_diff (reactants s) (products s).
Definition sinks (s : net) : list nat := set_diff (products s) (reactants s).
Definition species_set (s : net) : list nat :=
  set_union (set_union (reactants s) (products s)) (required s).
Definition where_species (s : net) (x : nat) : list nat :=
  map fst (filter (fun p : nat * rx => memb Nat.eqb x (rx_reac (snd p) ++ rx_prod (snd p)))
                  (enumerate (rl s))).

(** `extend` command, append steps: [ice_of x] is the identity of the surface
    counterpart of a neutral gas species (None otherwise); [gas_of x] the gas
    counterpart of a surface species.  The set iteration order is canonicalised
    (ascending identity); the correspondence compares multisets. *)
Definition mk_simple (tag : nat) (r p : list nat) (ty : Z) : rx :=
  {| rx_tag := tag; rx_idx := (-1)%Z;
     rx_key := {| k_reac := r; k_prod := p; k_rnames := []; k_pnames := [];
                  k_tmin := "-1.0"; k_tmax := "-1.0"; k_tminf := ""; k_tmaxf := "";
                  k_type := ty; k_tname := "" |} |}.

Definition append_by (f : nat -> option nat) (ty : Z) (s : net) : net :=
  let sp := isort Nat.leb (set_union (reactants s) (products s)) in
  fold_left (fun acc x => match f x with
                          | Some y => add_reaction acc (mk_simple 0 [x] [y] ty)
                          | None => acc
                          end) sp s.

(** the whole `naunet extend` pipeline on a reaction list: read, reduce-by-species (a NEW network of the reactions whose
    species are all listed), remove-species, remove-duplicate, the append steps in order, re-index *)
Definition reduce_by (al : list nat) (s : net) : net :=
  fold_left add_reaction
            (filter (fun r => forallb (fun x => memb Nat.eqb x al) (rx_reac r ++ rx_prod r)) (rl s))
            (empty_net [] []).
Definition remove_species (xs : list nat) (s : net) : net :=
  rebuild s (remove_idxs (flat_map (where_species s) xs) (rl s)).
Definition extend (reduce : option (list nat)) (remove : list nat) (dups : bool)
                  (appends : list ((nat -> option nat) * Z)) (l : list rx) : net :=
  let s0 := fold_left add_reaction l (empty_net [] []) in
  let s1 := match reduce with Some al => reduce_by al s0 | None => s0 end in
  let s2 := match remove with [] => s1 | _ => remove_species remove s1 end in
  let s3 := if dups then step s2 RemoveDups else s2 in
  let s4 := fold_left (fun s p => append_by (fst p) (snd p) s) appends s3 in
  step s4 Reindex.
