(** L2: decoding of reaction files — mirrors the six _parse_string methods,
    Component._create_species (pseudo-species filter), KROMEReaction.preprocessing /
    initialize, network._reaction_factory and Network.add_reaction_from_file.
    Numeric fields stay *texts* (what the code hands to float()/int()).
    Executable definitions only. *)
From Coq Require Import List Arith Bool String Ascii ZArith.
From Naunet Require Import Lib.ListX Lib.PyStr.
Import ListNotations.
Open Scope string_scope.

Record dec := {
  d_reac : list string;      (* names that become Species (pseudo names and "" dropped) *)
  d_prod : list string;
  d_alpha : string; d_beta : string; d_gamma : string;
  d_tmin : string; d_tmax : string;
  d_idx : string;
  d_code : string;           (* format code: formula / UMIST code / Leeds rtype / UCLCHEM marker / native type *)
  d_type : option Z;         (* ReactionType value, None when the table has no entry *)
  d_source : string;
  d_rate : string;           (* KROME rate text *)
}.

Inductive derr := EArity | EIndex.

(* Component._create_species: a truthy result *)
Definition keep_name (pseudo : list string) (n : string) : bool :=
  negb (String.eqb n "") && negb (memb String.eqb n pseudo).
Definition species_names (pseudo : list string) (l : list string) : list string :=
  filter (keep_name pseudo) l.

Definition sslice (s : string) (a b : nat) : string := str (slice (chars s) a b).
Definition sfrom (s : string) (a : nat) : string := str (skipn a (chars s)).

Fixpoint assoc_str {V} (k : string) (l : list (string * V)) : option V :=
  match l with [] => None | (k', v) :: r => if String.eqb k k' then Some v else assoc_str k r end.
Fixpoint assoc_Z {V} (k : Z) (l : list (Z * V)) : option V :=
  match l with [] => None | (k', v) :: r => if Z.eqb k k' then Some v else assoc_Z k r end.

(* int(text) for the small non-negative codes the formats use; None = not such a numeral *)
Definition small_int (s : string) : option Z :=
  let t := strip_l (chars s) in
  if all_digits t then Some (Z.of_N (digits_val t 0)) else None.

(** KIDA: fixed columns for species, whitespace-separated numeric tail *)
Definition decode_kida (formula2type : list (Z * Z)) (pseudo : list string) (line : string)
  : derr + dec :=
  let s := strip line in
  let reac := split_ws (sslice s 0 34) in
  let prod := split_ws (sslice s 34 90) in
  match split_ws (sfrom s 90) with
  | [a; b; c; _; _; _; itype; lt; ut; form; idx; _; _] =>
      let f := match small_int form with
               | Some f => if (Z.leb 1 f && Z.leb f 6)%bool then f else 3%Z
               | None => 3%Z   (* negative formulas are reset too; non-numerals raise in the code *)
               end in
      inr {| d_reac := species_names pseudo reac; d_prod := species_names pseudo prod;
             d_alpha := a; d_beta := b; d_gamma := c; d_tmin := lt; d_tmax := ut; d_idx := idx;
             d_code := form; d_type := assoc_Z f formula2type; d_source := "kida"; d_rate := "" |}
  | _ => inl EArity
  end.

(** UMIST: colon-separated, first 14 fields *)
Definition decode_umist (code2type : list (string * Z)) (pseudo : list string) (line : string)
  : derr + dec :=
  let parts := firstn 14 (split_on ":"%char (strip line)) in
  match parts with
  | idx :: code :: rest =>
      let n := List.length rest in
      if Nat.ltb n 6 then inl EArity else
      let rps := firstn (n - 6) rest in
      match skipn (n - 6) rest with
      | [_; a; b; c; lt; ut] =>
          inr {| d_reac := species_names pseudo (firstn 2 rps);
                 d_prod := species_names pseudo (firstn 4 (skipn 2 rps));
                 d_alpha := a; d_beta := b; d_gamma := c; d_tmin := lt; d_tmax := ut; d_idx := idx;
                 d_code := code; d_type := assoc_str code code2type; d_source := "umist"; d_rate := "" |}
      | _ => inl EArity
      end
  | _ => inl EArity
  end.

(** Leeds: fixed widths 5/30/50/8/9/10/5/5/3 on the raw line; YC -> CH2OHC *)
Definition decode_leeds (rtype2type : list (Z * Z)) (pseudo : list string) (line : string)
  : derr + dec :=
  let yc := fun n => replace "YC" "CH2OHC" n in
  let reac := map yc (split_ws (sslice line 5 35)) in
  let prod := map yc (split_ws (sslice line 35 85)) in
  let ty := sslice line 123 125 in        (* clip[1:] of the 3-character type field *)
  inr {| d_reac := species_names pseudo reac; d_prod := species_names pseudo prod;
         d_alpha := sslice line 85 93; d_beta := sslice line 93 102; d_gamma := sslice line 102 112;
         d_tmin := sslice line 112 117; d_tmax := sslice line 117 122; d_idx := sslice line 0 5;
         d_code := ty;
         d_type := match small_int ty with Some t => assoc_Z t rtype2type | None => None end;
         d_source := "leeds"; d_rate := "" |}.

(** UCLCHEM: comma-separated, marker in slot 2, freeze-out window forced to 0..30 *)
Definition decode_uclchem (reactant2type : list (string * Z)) (freeze ma : Z) (pseudo : list string)
           (line : string) : derr + dec :=
  let parts := split_on ","%char line in
  let n := List.length parts in
  if Nat.ltb n 5 then inl EArity else
  let rpspec := firstn (n - 5) parts in
  match skipn (n - 5) parts, nth_error rpspec 1 with
  | [a; b; c; lt; ut], Some marker =>
      let ty := match assoc_str marker reactant2type with Some t => t | None => ma end in
      let kw := (map fst reactant2type ++ ["NAN"])%list in
      let notkw := fun x => negb (memb String.eqb x kw) in
      let isfr := Z.eqb ty freeze in
      inr {| d_reac := species_names pseudo (filter notkw (firstn 3 rpspec));
             d_prod := species_names pseudo (filter notkw (firstn 4 (skipn 3 rpspec)));
             d_alpha := a; d_beta := b; d_gamma := c;
             d_tmin := if isfr then "0" else lt; d_tmax := if isfr then "30" else ut;
             d_idx := "-1"; d_code := marker; d_type := Some ty; d_source := "uclchem"; d_rate := "" |}
  | [_; _; _; _; _], None => inl EIndex
  | _, _ => inl EArity
  end.

(** native exchange format: idx, 3 reactants, 5 products, a, b, c, tmin, tmax, type, source *)
Definition decode_native (pseudo : list string) (line : string) : derr + dec :=
  match split_on ","%char line with
  | idx :: rest =>
      let n := List.length rest in
      if Nat.ltb n 7 then inl EArity else
      let rps := map strip (firstn (n - 7) rest) in
      match skipn (n - 7) rest with
      | [a; b; c; lt; ut; rtype; source] =>
          inr {| d_reac := species_names pseudo (firstn 3 rps);
                 d_prod := species_names pseudo (firstn 5 (skipn 3 rps));
                 d_alpha := a; d_beta := b; d_gamma := c; d_tmin := lt; d_tmax := ut; d_idx := idx;
                 d_code := rtype; d_type := small_int rtype; d_source := strip source; d_rate := "" |}
      | _ => inl EArity
      end
  | [] => inl EArity
  end.

(** KROME: the current @format decides what each comma field means *)
Definition krome_window (v : string) (dflt : string) : string :=
  if memb String.eqb (upper v) ["N"; "NONE"; "N/A"; "NO"; ""] then dflt
  else replace "d" "e"
         (fold_left (fun acc op => replace op "" acc) ["<"; ">"; ".LE."; ".GE."; ".LT."; ".GT."] v).

Fixpoint krome_fields (pseudo : list string) (kv : list (string * string)) (d : dec) : dec :=
  match kv with
  | [] => d
  | (k, v) :: r =>
      let d' :=
        if String.eqb v "" then d
        else if String.eqb k "idx" then
          {| d_reac := d_reac d; d_prod := d_prod d; d_alpha := d_alpha d; d_beta := d_beta d; d_gamma := d_gamma d;
             d_tmin := d_tmin d; d_tmax := d_tmax d; d_idx := v; d_code := d_code d; d_type := d_type d;
             d_source := d_source d; d_rate := d_rate d |}
        else if String.eqb k "r" && keep_name pseudo v then
          {| d_reac := d_reac d ++ [v]; d_prod := d_prod d; d_alpha := d_alpha d; d_beta := d_beta d; d_gamma := d_gamma d;
             d_tmin := d_tmin d; d_tmax := d_tmax d; d_idx := d_idx d; d_code := d_code d; d_type := d_type d;
             d_source := d_source d; d_rate := d_rate d |}
        else if String.eqb k "p" && keep_name pseudo v then
          {| d_reac := d_reac d; d_prod := d_prod d ++ [v]; d_alpha := d_alpha d; d_beta := d_beta d; d_gamma := d_gamma d;
             d_tmin := d_tmin d; d_tmax := d_tmax d; d_idx := d_idx d; d_code := d_code d; d_type := d_type d;
             d_source := d_source d; d_rate := d_rate d |}
        else if String.eqb k "tmin" then
          {| d_reac := d_reac d; d_prod := d_prod d; d_alpha := d_alpha d; d_beta := d_beta d; d_gamma := d_gamma d;
             d_tmin := krome_window v (d_tmin d); d_tmax := d_tmax d; d_idx := d_idx d; d_code := d_code d; d_type := d_type d;
             d_source := d_source d; d_rate := d_rate d |}
        else if String.eqb k "tmax" then
          {| d_reac := d_reac d; d_prod := d_prod d; d_alpha := d_alpha d; d_beta := d_beta d; d_gamma := d_gamma d;
             d_tmin := d_tmin d; d_tmax := krome_window v (d_tmax d); d_idx := d_idx d; d_code := d_code d; d_type := d_type d;
             d_source := d_source d; d_rate := d_rate d |}
        else if String.eqb k "rate" then
          {| d_reac := d_reac d; d_prod := d_prod d; d_alpha := d_alpha d; d_beta := d_beta d; d_gamma := d_gamma d;
             d_tmin := d_tmin d; d_tmax := d_tmax d; d_idx := d_idx d; d_code := d_code d; d_type := d_type d;
             d_source := d_source d; d_rate := replace "dexp" "exp" v |}
        else d in
      krome_fields pseudo r d'
  end.

Definition krome_empty (unknown : Z) : dec :=
  {| d_reac := []; d_prod := []; d_alpha := "0.0"; d_beta := "0.0"; d_gamma := "0.0";
     d_tmin := "-1.0"; d_tmax := "-1.0"; d_idx := "-1"; d_code := ""; d_type := Some unknown;
     d_source := "krome"; d_rate := "" |}.

Definition decode_krome (unknown : Z) (pseudo : list string) (fmt : string) (line : string) : derr + dec :=
  let s := strip line in
  let kwords := split_on ","%char (strip (lower fmt)) in
  inr (krome_fields pseudo (combine kwords (split_on ","%char s)) (krome_empty unknown)).

(** per-file state of the KROME reader (class attributes reset by initialize) *)
Record kstate := { k_format : string; k_vars : list string; k_commons : list string }.
Definition kstate0 : kstate :=
  {| k_format := "idx,r,r,r,p,p,p,p,tmin,tmax,rate"; k_vars := []; k_commons := [] |}.

Definition sstarts (p s : string) : bool := starts_with (chars p) (chars s).
Fixpoint contains_l (fuel : nat) (p s : list ascii) : bool :=
  match fuel with
  | O => starts_with p s
  | S f => starts_with p s || match s with [] => false | _ :: r => contains_l f p r end
  end.
Definition scontains (p s : string) : bool := contains_l (String.length s) (chars p) (chars s).

(* KROMEReaction.preprocessing: (new state, text handed on) *)
Definition krome_pre (st : kstate) (line : string) : kstate * string :=
  if sstarts "#" line || sstarts "//" line then (st, "")
  else if sstarts "@format:" line then
    ({| k_format := replace "@format:" "" line; k_vars := k_vars st; k_commons := k_commons st |}, "")
  else if sstarts "@var" line then
    (if scontains "Hnuclei" line then st
     else {| k_format := k_format st; k_vars := k_vars st ++ [strip (replace "@var:" "" line)];
             k_commons := k_commons st |}, "")
  else if sstarts "@common:" line then
    ({| k_format := k_format st; k_vars := k_vars st;
        k_commons := k_commons st ++ split_on ","%char (strip (replace "@common:" "" line)) |}, "")
  else (st, strip line).

Inductive fmt := FKida | FUmist | FLeeds | FUclchem | FKrome | FNative.

Record ftables := {
  ft_kida : list (Z * Z); ft_umist : list (string * Z); ft_leeds : list (Z * Z);
  ft_uclchem : list (string * Z); ft_freeze : Z; ft_twobody : Z; ft_unknown : Z;
  ft_pseudo : list string;
}.

(* _reaction_factory: None = the line adds no reaction *)
Definition factory (F : ftables) (f : fmt) (st : kstate) (line : string)
  : kstate * option (derr + dec) :=
  let '(st', text) := match f with FKrome => krome_pre st line | _ => (st, line) end in
  if String.eqb text "" || String.eqb (strip text) "" then (st', None)
  else
    (st', Some (match f with
                | FKida => decode_kida (ft_kida F) (ft_pseudo F) text
                | FUmist => decode_umist (ft_umist F) (ft_pseudo F) text
                | FLeeds => decode_leeds (ft_leeds F) (ft_pseudo F) text
                | FUclchem => decode_uclchem (ft_uclchem F) (ft_freeze F) (ft_twobody F) (ft_pseudo F) text
                | FKrome => decode_krome (ft_unknown F) (ft_pseudo F) (k_format st') text
                | FNative => decode_native (ft_pseudo F) text
                end)).

(* Network.add_reaction_from_file: one reaction per data line, in file order *)
Fixpoint read_lines (F : ftables) (f : fmt) (st : kstate) (lines : list string) : list (derr + dec) :=
  match lines with
  | [] => []
  | l :: r =>
      let '(st', o) := factory F f st l in
      match o with
      | Some d => d :: read_lines F f st' r
      | None => read_lines F f st' r
      end
  end.
Definition read_file (F : ftables) (f : fmt) (lines : list string) : list (derr + dec) :=
  read_lines F f kstate0 lines.
