(** L7: renormalisation of elemental abundances — mirrors
    TemplateLoader._prepare_renorm_content: the element coupling matrix (row-major,
    nelem x nelem) and the per-species factor, as lists of terms.  A matrix term
    (q, k, d) stands for "q * ab[IDX_k] / d / Hnuclei", a factor term (q, j, d) for
    "q * rptr[IDX_ELEM_j] / d".  Executable definitions only. *)
From Coq Require Import List Arith Bool ZArith QArith.
From Naunet Require Import Lib.ListX.
Import ListNotations.

Record rsp := {
  r_cnt : list Z;       (* element_count of the species for each element of the network, in element order *)
  r_mass : Q;           (* spec.A *)
  r_elec : bool;        (* is_electron *)
}.
Definition cnt (s : rsp) (i : nat) : Z := nth i (r_cnt s) 0%Z.
Definition nonzero (z : Z) : bool := negb (Z.eqb z 0).

Definition term := (Q * nat * Q)%type.

(* weight(spec): the mass number, or 1.0 for species without one (dust grains) *)
Definition weight (a : Q) : Q := if Qle_bool a 0 then 1 else a.

(* for ispec, spec in enumerate(species): if not spec.is_electron and ci and cj: ... *)
Definition matrix_entry (elA : list Q) (sps : list rsp) (i j : nat) : list term :=
  flat_map (fun p : nat * rsp =>
              let s := snd p in
              if negb (r_elec s) && nonzero (cnt s i) && nonzero (cnt s j)
              then [(inject_Z (cnt s i * cnt s j) * weight (nth j elA 0), fst p, weight (r_mass s))]
              else []) (enumerate sps).

Definition matrix (elA : list Q) (sps : list rsp) : list (list term) :=
  let n := List.length elA in
  flat_map (fun i => map (fun j => matrix_entry elA sps i j) (seq 0 n)) (seq 0 n).

(* None = the literal 1.0: electrons, and species sharing no element with the network's atoms *)
Definition factor_terms (elA : list Q) (s : rsp) : list term :=
  flat_map (fun j => if nonzero (cnt s j) then [(inject_Z (cnt s j) * weight (nth j elA 0), j, weight (r_mass s))] else [])
           (seq 0 (List.length elA)).
Definition factor_entry (elA : list Q) (s : rsp) : option (list term) :=
  if r_elec s then None
  else match factor_terms elA s with [] => None | l => Some l end.

Definition factors (elA : list Q) (sps : list rsp) : list (option (list term)) := map (factor_entry elA) sps.
