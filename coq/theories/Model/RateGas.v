(** L5: gas-phase rate-coefficient strings — mirrors rateexpr() of Reaction (native),
    KIDAReaction, UMISTReaction, LEEDSReaction (gas types) and UCLCHEMReaction (gas
    types) as atom strings.  A coefficient is printed by an f-string as repr(float):
    its class decides the text and its truthiness.  Executable definitions only. *)
From Coq Require Import List Arith Bool String Ascii ZArith.
From Naunet Require Import Lib.ListX Lib.PyStr Model.CExpr.
Import ListNotations.
Open Scope string_scope.
Open Scope list_scope.

Inductive cls := Pos | Neg | Zero | NegZero.     (* x > 0, x < 0, 0.0, -0.0 *)

Definition coef (k : cls) (i : nat) : txt :=
  match k with
  | Pos => [M i]
  | Neg => C "-"%char :: [M i]
  | Zero => tx "0.0"
  | NegZero => tx "-0.0"
  end.
Definition truthy (k : cls) : bool := match k with Pos | Neg => true | _ => false end.

(* " * ".join(s for s in pieces if s) *)
Fixpoint join_star (ps : list txt) : txt :=
  match ps with
  | [] => []
  | p :: r => match r with [] => p | _ => p ++ tx " * " ++ join_star r end
  end.
Definition nonempty (ps : list txt) : list txt :=
  filter (fun p => match p with [] => false | _ => true end) ps.

Section Emit.
Variables ka kb kc : cls.
Let a := coef ka 0.
Let b := coef kb 1.
Let c := coef kc 2.

(* a [* pow(Tgas/300.0, b)] [* exp(-c/Tgas)] *)
Definition arrhenius : txt :=
  join_star (nonempty [a;
                       if truthy kb then tx "pow(Tgas/300.0, " ++ b ++ tx ")" else [];
                       if truthy kc then tx "exp(-" ++ c ++ tx "/Tgas)" else []]).
Definition ionpol1 : txt := a ++ tx " * " ++ b ++ tx " * (0.62 + 0.4767*" ++ c ++ tx "*sqrt(300.0/Tgas))".
Definition ionpol2 : txt :=
  a ++ tx " * " ++ b ++ tx " * (1 + 0.0967*" ++ c ++ tx "*sqrt(300.0/Tgas) + " ++ c ++ tx "*" ++ c ++ tx "*(300.0/Tgas)/10.526)".
Definition photo : txt := a ++ tx " * exp(-" ++ c ++ tx "*Av)".
Definition crphot (one : string) : txt :=
  a ++ tx " * pow(Tgas/300.0, " ++ b ++ tx ") * " ++ c ++ tx " / (" ++ tx one ++ tx "omega)".

Inductive refusal := RNotImplemented | RUnknown.

(** KIDAReaction.rateexpr, by formula *)
Definition kida_rate (formula : Z) : refusal + txt :=
  match formula with
  | 1%Z => inr (beautify (a ++ tx " * zeta"))
  | 2%Z => inr (beautify (join_star (nonempty [a; if truthy kc then tx "exp(-" ++ c ++ tx "*Av)" else []])))
  | 3%Z => inr (beautify arrhenius)
  | 4%Z => inr (beautify ionpol1)
  | 5%Z => inr (beautify ionpol2)
  | 6%Z => inl RNotImplemented
  | _ => inl RUnknown
  end.

(** UMISTReaction.rateexpr, by reaction type value *)
Definition umist_rate (twobody photon cosmicray crphot_t : Z) (ty : option Z) : refusal + txt :=
  match ty with
  | None => inl RUnknown
  | Some ty =>
      if Z.eqb ty twobody then inr (beautify arrhenius)
      else if Z.eqb ty photon then inr (beautify photo)
      else if Z.eqb ty cosmicray then inr (beautify a)
      else if Z.eqb ty crphot_t then inr (beautify (crphot "1-"))
      else inl RUnknown
  end.

(** LEEDSReaction.rateexpr (gas-phase rtypes; [shield] = the shielding call appended for
    H2, CO, N2 and their ices, empty otherwise) *)
Definition leeds_rate (rtype : Z) (shield : string) : refusal + txt :=
  let sh := match shield with EmptyString => [] | _ => tx " * " ++ tx shield end in
  match rtype with
  | 1%Z => inr (beautify arrhenius)
  | 2%Z => inr (beautify (a ++ tx " * (zeta_cr + zeta_xr) / zism"))
  | 3%Z => inr (beautify (a ++ tx " * ((zeta_cr + zeta_xr) / zism) * pow(Tgas/300.0, " ++ b ++ tx ") * " ++ c ++ tx " / (1.0 - omega)"))
  | 4%Z => inr (beautify (tx "G0 * " ++ a ++ tx " * exp(-" ++ c ++ tx "*Av)" ++ sh))
  | 5%Z => inr (beautify (tx "0.0"))
  | 11%Z => inr (beautify (a ++ tx " * ((zeta_xr+zeta_cr)/zism) * pow(Tgas/300.0, " ++ b ++ tx ") * " ++ c ++ tx " / (1.0 - omega)"))
  | 12%Z => inr (beautify (tx "G0 * " ++ a ++ tx " * exp(-" ++ c ++ tx "*Av)" ++ sh))
  | 15%Z | 16%Z | 17%Z | 18%Z | 19%Z => inr (beautify (tx "0.0"))
  | _ => inl RUnknown          (* grain types go through the dust model (C11) *)
  end.

(** UCLCHEMReaction.rateexpr (gas types); [co] = the reactant is CO *)
Definition uclchem_rate (twobody cosmicray crphot_t photon : Z) (ty : Z) (co : bool) : refusal + txt :=
  if Z.eqb ty twobody then inr (beautify arrhenius)
  else if Z.eqb ty cosmicray then inr (beautify (a ++ tx " * (zeta / zism)"))
  else if Z.eqb ty crphot_t then
    inr (beautify (a ++ tx " * (zeta / zism) * pow(Tgas/300.0, " ++ b ++ tx ") * " ++ c ++ tx " / (1.0 - omega)"))
  else if Z.eqb ty photon then
    inr (beautify (if co then tx "(2.0e-10) * G0 * GetShieldingFactor(IDX_COI, h2col, cocol, Tgas, 1) * GetGrainScattering(Av, lambdabar) / 1.7"
                   else tx "G0 * " ++ a ++ tx " * exp(-" ++ c ++ tx "*Av) / 1.7"))
  else inl RUnknown.

(** Reaction.rateexpr (native types).  [beaut] = whether the string is passed through
    _beautify (regenerated from the source on every run). *)
Definition native_rate (beaut : bool) (twobody cosmicray photon ip1 ip2 crphot_t dummy : Z) (ty : Z) : refusal + txt :=
  let fin := fun s => if beaut then beautify s else s in
  if Z.eqb ty twobody then inr (fin arrhenius)
  else if Z.eqb ty cosmicray then inr (fin (a ++ tx " * zeta"))
  else if Z.eqb ty photon then inr (fin photo)
  else if Z.eqb ty ip1 then inr (fin ionpol1)
  else if Z.eqb ty ip2 then inr (fin ionpol2)
  else if Z.eqb ty crphot_t then inr (fin (crphot "1-"))
  else if Z.eqb ty dummy then inr (fin (tx "0.0"))
  else inl RUnknown.
End Emit.
