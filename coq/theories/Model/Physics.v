(** The element-total and mantle helpers of naunet_physics.cpp (GetElementAbund,
    GetMantleDens): which terms the template emits and their text.
    Executable definitions only. *)
From Coq Require Import List Arith Bool String Ascii ZArith NArith.
From Naunet Require Import Lib.ListX Lib.PyStr Model.Species.
Import ListNotations.
Open Scope string_scope.

(* what the template reads of a species: alias, element_count, is_surface *)
Record hspec := { h_alias : string; h_counts : list (string * N); h_surface : bool }.

(* {% set natom = spec.element_count.get(elemname) %}{% if natom %}: absent and 0 are both skipped *)
Definition elem_terms (el : string) (sp : list hspec) : list (N * nat) :=
  flat_map (fun is : nat * hspec =>
              let n := count_of el (h_counts (snd is)) in
              if N.eqb n 0 then [] else [(n, fst is)]) (enumerate sp).

Definition yref (sp : list hspec) (i : nat) : string :=
  "y[IDX_" ++ match nth_error sp i with Some s => h_alias s | None => "?" end ++ "]".

(* "{:.1f}".format(natom) ~ "*" ~ ab ~ " + ", a line break before every fifth term, then "0.0;" *)
Fixpoint elem_text_go (sp : list hspec) (k : nat) (ts : list (N * nat)) : string :=
  match ts with
  | [] => "0.0;"
  | (n, i) :: r =>
      (if negb (Nat.eqb k 0) && Nat.eqb (Nat.modulo k 4) 0 then String "010"%char (str (repeat_char " "%char 15)) else "")
      ++ print_N n ++ ".0*" ++ yref sp i ++ " + " ++ elem_text_go sp (S k) r
  end.
Definition elem_text (el : string) (sp : list hspec) : string :=
  "return " ++ elem_text_go sp 0 (elem_terms el sp).

(* the elements the helper dispatches on: the first key of element_count of every
   member of network.elements *)
Definition first_key (c : list (string * N)) : string :=
  match c with (k, _) :: _ => k | [] => "" end.

Definition mantle_terms (sp : list hspec) : list nat :=
  flat_map (fun is : nat * hspec => if h_surface (snd is) then [fst is] else []) (enumerate sp).
