(** L3 (part): duplicate detection — mirrors Network.find_duplicate_reaction.
    Executable definitions only. *)
From Coq Require Import List Arith Bool ZArith String.
From Naunet Require Import Lib.ListX.
Import ListNotations.

Section FindDup.
Context {K : Type}.
Variable keqb : K -> K -> bool.

(* the dict [seen]: key -> list of indices, in insertion order (Python dicts
   preserve insertion order); stored indices are kept in reverse *)
Definition seen_t := list (K * list nat).

Fixpoint seen_lookup (k : K) (s : seen_t) : bool :=
  match s with
  | [] => false
  | (k', _) :: r => keqb k k' || seen_lookup k r
  end.

(* append idx to the first entry whose key equals k *)
Fixpoint seen_append (k : K) (idx : nat) (s : seen_t) : seen_t :=
  match s with
  | [] => []
  | (k', l) :: r =>
      if keqb k k' then (k', idx :: l) :: r else (k', l) :: seen_append k idx r
  end.

(* one pass of the loop: returns (seen, reversed dupidx) *)
Fixpoint dup_loop (idx : nat) (keys : list K) (seen : seen_t) (dups : list nat)
  : seen_t * list nat :=
  match keys with
  | [] => (seen, dups)
  | k :: r =>
      if seen_lookup k seen
      then dup_loop (S idx) r (seen_append k idx seen) (idx :: dups)
      else dup_loop (S idx) r (seen ++ [(k, [idx])]) dups
  end.

Definition first_of (s : seen_t) : list nat :=
  flat_map (fun e : K * list nat =>
              match rev (snd e) with
              | i :: _ :: _ => [i]
              | _ => []
              end) s.

(* (dupidx, first) — dupes is [map (nth reactions) dupidx] *)
Definition find_dup (keys : list K) : list nat * list nat :=
  let '(seen, dups) := dup_loop 0 keys [] [] in
  (rev dups, first_of seen).

(* reaction_list = [r for idx, r in enumerate(reaction_list) if idx not in dupidx] *)
Definition remove_idxs {Y} (idxs : list nat) (l : list Y) : list Y :=
  map snd (filter (fun p : nat * Y => negb (memb Nat.eqb (fst p) idxs)) (enumerate l)).
End FindDup.

(** the comparison keys of the four modes, over an abstract species identity
    [S] (mirroring Species.__eq__) and opaque texts for numbers *)
Record rxn_key := {
  k_reac : list nat;          (* species identities (class index under __eq__) *)
  k_prod : list nat;
  k_rnames : list string;     (* names, for the formatted modes *)
  k_pnames : list string;
  k_tmin : string;            (* canonical text of the float (equality of floats) *)
  k_tmax : string;
  k_tminf : string;           (* the bound as printed with {:7.1f} *)
  k_tmaxf : string;
  k_type : Z;                 (* ReactionType value *)
  k_tname : string;           (* ReactionType name *)
}.

Definition UNKNOWN_T : Z := 999%Z.

Definition rpeq (a b : rxn_key) : bool :=
  mset_eqb Nat.eqb (k_reac a) (k_reac b) && mset_eqb Nat.eqb (k_prod a) (k_prod b).

(* Reaction.__eq__ *)
Definition rxn_eqb (a b : rxn_key) : bool :=
  rpeq a b && String.eqb (k_tmin a) (k_tmin b) && String.eqb (k_tmax a) (k_tmax b)
  && (Z.eqb (k_type a) (k_type b) || Z.eqb (k_type a) UNKNOWN_T || Z.eqb (k_type b) UNKNOWN_T).

(* mode "brief": Reaction(reactants, products) compared with __eq__: both sides
   carry the default window and UNKNOWN type, so only rpeq remains *)
Definition brief_eqb (a b : rxn_key) : bool := rpeq a b.

(* mode "minimal": f"{' + '.join(sorted names)} -> {...}" *)
Definition join_plus (l : list string) : string := String.concat " + " l.
Definition minimal_str (a : rxn_key) : string :=
  (join_plus (isort string_leb (k_rnames a)) ++ " -> " ++ join_plus (isort string_leb (k_pnames a)))%string.
Definition minimal_eqb (a b : rxn_key) : bool := String.eqb (minimal_str a) (minimal_str b).

Definition short_str (a : rxn_key) : string :=
  (minimal_str a ++ ", " ++ k_tminf a ++ " < T < " ++ k_tmaxf a ++ ", Type: " ++ k_tname a)%string.
Definition short_eqb (a b : rxn_key) : bool := String.eqb (short_str a) (short_str b).

Definition mode_eqb (mode : string) : rxn_key -> rxn_key -> bool :=
  if String.eqb mode "brief" then brief_eqb
  else if String.eqb mode "minimal" then minimal_eqb
  else if String.eqb mode "short" then short_eqb
  else rxn_eqb.

(** Reaction.__hash__: the hashes of the reactants, sorted, then those of the
    products, sorted, in ONE tuple (no separator between the two sides); [h] maps
    a species identity to its hash class *)
Definition rxn_hash (h : nat -> nat) (a : rxn_key) : list nat :=
  isort Nat.leb (map h (k_reac a)) ++ isort Nat.leb (map h (k_prod a)).
