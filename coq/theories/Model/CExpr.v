(** L5: emitted C expressions over *atom strings*.  A rate string is a list of
    symbols: ordinary characters and opaque magnitude atoms [M i] (the digits of
    |alpha|, |beta|, |gamma| as repr() prints them).  Mirrors Reaction._beautify
    (four sequential str.replace of two-character patterns), and gives the C
    reading of the text: maximal-munch lexer, precedence parser (fuelled).
    Executable definitions only. *)
From Coq Require Import List Arith Bool String Ascii.
From Naunet Require Import Lib.ListX Lib.PyStr.
Import ListNotations.

Inductive sym := C (c : ascii) | M (i : nat) | N (i : nat).   (* character, magnitude atom, identifier atom *)
Definition txt := list sym.
Definition tx (s : string) : txt := map C (chars s).

(** str.replace(p1 p2, new) at symbol level: leftmost, non-overlapping *)
Fixpoint sreplace2 (p1 p2 new : ascii) (s : txt) : txt :=
  match s with
  | [] => []
  | x :: tl =>
      match x, tl with
      | C a, C b :: r =>
          if Ascii.eqb a p1 && Ascii.eqb b p2 then C new :: sreplace2 p1 p2 new r
          else x :: sreplace2 p1 p2 new tl
      | _, _ => x :: sreplace2 p1 p2 new tl
      end
  end.

(* rate_string.replace("++","+").replace("--","+").replace("+-","-").replace("-+","-") *)
Definition beautify (s : txt) : txt :=
  sreplace2 "-" "+" "-" (sreplace2 "+" "-" "-" (sreplace2 "-" "-" "+" (sreplace2 "+" "+" "+" s))).

(* the text with the magnitudes written out *)
Definition flatten_with (mag name : nat -> list ascii) (s : txt) : list ascii :=
  flat_map (fun x => match x with C c => [c] | M i => mag i | N i => name i end) s.
Definition flatten (mag : nat -> list ascii) (s : txt) : list ascii := flatten_with mag (fun _ => []) s.

(** ** C tokens *)
Inductive tok :=
| TId (s : list ascii) | TNum (s : list ascii) | TMag (i : nat) | TName (i : nat) | TOp (c : ascii) | TGe | TBad.

Definition is_opchar (c : ascii) : bool :=
  match c with
  | "+"%char | "-"%char | "*"%char | "/"%char | "("%char | ")"%char | ","%char
  | "?"%char | ":"%char | ">"%char | "["%char | "]"%char => true
  | _ => false
  end.
Definition is_idstart (c : ascii) : bool := is_upper c || is_lower c || Ascii.eqb c "_"%char.
Definition is_idchar (c : ascii) : bool := is_alnum c || Ascii.eqb c "_"%char.
Definition is_e (c : ascii) : bool := Ascii.eqb c "e"%char || Ascii.eqb c "E"%char.
Definition is_sign (c : ascii) : bool := Ascii.eqb c "+"%char || Ascii.eqb c "-"%char.

Definition flush (st : nat) (buf : list ascii) (acc : list tok) : list tok :=
  match st with
  | 1 => TId (rev buf) :: acc
  | 2 | 3 => TNum (rev buf) :: acc
  | _ => acc
  end.

(* states: 0 between tokens, 1 identifier, 2 number, 3 number just after e/E,
   4 skip one symbol (second half of ++ / --).  [acc] is reversed. *)
Fixpoint lex_go (st : nat) (buf : list ascii) (s : txt) (acc : list tok) : list tok :=
  match s with
  | [] => rev (flush st buf acc)
  | x :: r =>
      match st with
      | 4 => lex_go 0 [] r acc
      | _ =>
          match x with
          | M i =>
              match st with
              | 0 => lex_go 0 [] r (TMag i :: acc)
              | _ => lex_go 0 [] r (TBad :: flush st buf acc)   (* a magnitude glued to a word / number *)
              end
          | N i =>
              match st with
              | 0 => lex_go 0 [] r (TName i :: acc)
              | _ => lex_go 0 [] r (TBad :: flush st buf acc)   (* an identifier glued to a word / number *)
              end
          | C c =>
              let continue :=
                  match st with
                  | 1 => is_idchar c
                  | 2 => is_digit c || Ascii.eqb c "."%char || is_idchar c
                  | 3 => is_digit c || is_sign c || is_idchar c
                  | _ => false
                  end in
              if continue then
                lex_go (match st with
                        | 1 => 1
                        | _ => if is_e c then 3 else 2
                        end) (c :: buf) r acc
              else
                let acc' := flush st buf acc in
                if is_space c then lex_go 0 [] r acc'
                else if is_idstart c then lex_go 1 [c] r acc'
                else if is_digit c || Ascii.eqb c "."%char then lex_go 2 [c] r acc'
                else if is_opchar c then
                  match r with
                  | C d :: _ =>
                      if is_sign c && Ascii.eqb c d then lex_go 4 [] r (TBad :: acc')   (* ++ or -- *)
                      else if Ascii.eqb c ">"%char && Ascii.eqb d "="%char then lex_go 4 [] r (TGe :: acc')
                      else lex_go 0 [] r (TOp c :: acc')
                  | _ => lex_go 0 [] r (TOp c :: acc')
                  end
                else lex_go 0 [] r (TBad :: acc')
          end
      end
  end.
Definition lex (s : txt) : list tok := lex_go 0 [] s [].

(** ** expressions *)
Inductive ex :=
| ELit (s : list ascii) | EMag (i : nat) | EVar (s : list ascii) | EName (i : nat)
| ENeg (e : ex) | EPos (e : ex)
| EBin (op : ascii) (a b : ex)
| ECall (f : list ascii) (args : list ex)
| EIdx (a : list ascii) (i : ex)                 (* a[i] *)
| ERel (ge : bool) (a b : ex)                    (* a >= b / a > b *)
| ECond (c a b : ex).                            (* c ? a : b *)

Fixpoint pcond (n : nat) (ts : list tok) : option (ex * list tok) :=
  match n with
  | O => None
  | S n =>
      match prel n ts with
      | Some (c, TOp "?"%char :: r) =>
          match pcond n r with
          | Some (a, TOp ":"%char :: r') =>
              match pcond n r' with Some (b, r'') => Some (ECond c a b, r'') | None => None end
          | _ => None
          end
      | other => other
      end
  end
with prel (n : nat) (ts : list tok) : option (ex * list tok) :=
  match n with
  | O => None
  | S n =>
      match pexpr n ts with
      | Some (a, TOp ">"%char :: r) =>
          match pexpr n r with Some (b, r') => Some (ERel false a b, r') | None => None end
      | Some (a, TGe :: r) =>
          match pexpr n r with Some (b, r') => Some (ERel true a b, r') | None => None end
      | other => other
      end
  end
with pexpr (n : nat) (ts : list tok) : option (ex * list tok) :=
  match n with
  | O => None
  | S n =>
      match pterm n ts with
      | Some (l, r) => pexpr_rest n l r
      | None => None
      end
  end
with pexpr_rest (n : nat) (l : ex) (ts : list tok) : option (ex * list tok) :=
  match n with
  | O => None
  | S n =>
      match ts with
      | TOp "+"%char :: r =>
          match pterm n r with Some (e, r') => pexpr_rest n (EBin "+"%char l e) r' | None => None end
      | TOp "-"%char :: r =>
          match pterm n r with Some (e, r') => pexpr_rest n (EBin "-"%char l e) r' | None => None end
      | _ => Some (l, ts)
      end
  end
with pterm (n : nat) (ts : list tok) : option (ex * list tok) :=
  match n with
  | O => None
  | S n =>
      match punary n ts with
      | Some (l, r) => pterm_rest n l r
      | None => None
      end
  end
with pterm_rest (n : nat) (l : ex) (ts : list tok) : option (ex * list tok) :=
  match n with
  | O => None
  | S n =>
      match ts with
      | TOp "*"%char :: r =>
          match punary n r with Some (e, r') => pterm_rest n (EBin "*"%char l e) r' | None => None end
      | TOp "/"%char :: r =>
          match punary n r with Some (e, r') => pterm_rest n (EBin "/"%char l e) r' | None => None end
      | _ => Some (l, ts)
      end
  end
with punary (n : nat) (ts : list tok) : option (ex * list tok) :=
  match n with
  | O => None
  | S n =>
      match ts with
      | TOp "-"%char :: r => match punary n r with Some (e, r') => Some (ENeg e, r') | None => None end
      | TOp "+"%char :: r => match punary n r with Some (e, r') => Some (EPos e, r') | None => None end
      | _ => pprimary n ts
      end
  end
with pprimary (n : nat) (ts : list tok) : option (ex * list tok) :=
  match n with
  | O => None
  | S n =>
      match ts with
      | TNum s :: r => Some (ELit s, r)
      | TMag i :: r => Some (EMag i, r)
      | TName i :: r => Some (EName i, r)
      | TId f :: TOp "("%char :: TOp ")"%char :: r => Some (ECall f [], r)
      | TId f :: TOp "("%char :: r =>
          match pargs n r with
          | Some (args, TOp ")"%char :: r') => Some (ECall f args, r')
          | _ => None
          end
      | TId v :: TOp "["%char :: r =>
          match pcond n r with
          | Some (e, TOp "]"%char :: r') => Some (EIdx v e, r')
          | _ => None
          end
      | TId v :: r => Some (EVar v, r)
      | TOp "("%char :: r =>
          match pcond n r with
          | Some (e, TOp ")"%char :: r') => Some (e, r')
          | _ => None
          end
      | _ => None
      end
  end
with pargs (n : nat) (ts : list tok) : option (list ex * list tok) :=
  match n with
  | O => None
  | S n =>
      match pcond n ts with
      | Some (e, TOp ","%char :: r) =>
          match pargs n r with Some (es, r') => Some (e :: es, r') | None => None end
      | Some (e, r) => Some ([e], r)
      | None => None
      end
  end.

Definition parse_toks (ts : list tok) : option ex :=
  match pcond (10 * List.length ts + 10) ts with
  | Some (e, []) => Some e
  | _ => None
  end.
Definition parse (s : txt) : option ex := parse_toks (lex s).

(* no fused operator ("--", "++") and no other illegal token *)
Definition no_bad_token (s : txt) : bool :=
  forallb (fun x => match x with TBad => false | _ => true end) (lex s).
