(** L3/L9: species ordering and index identifiers — mirrors Network.species
    (sorted by name, then stably by (number of connected species, name)),
    Network.elements, and the emission of the IDX_ macros / Python constants /
    summary lists.  Executable definitions only. *)
From Coq Require Import List Arith Bool String Ascii ZArith NArith.
From Naunet Require Import Lib.ListX Lib.PyStr Lib.Sexp Model.Species.
Import ListNotations.
Open Scope string_scope.

(* len(connection[x]): distinct species sharing a reaction with x (x included) *)
Definition degree (rs : list (list string)) (x : string) : nat :=
  List.length (nub String.eqb (flat_map (fun r => if memb String.eqb x r then r else []) rs)).

Definition key_leb (a b : nat * string) : bool :=
  Nat.ltb (fst a) (fst b) || (Nat.eqb (fst a) (fst b) && string_leb (snd a) (snd b)).

Definition species_order (sp : list string) (rs : list (list string)) : list string :=
  map snd (isort key_leb (map (fun x => (degree rs x, x)) sp)).

(* position of a name in the ordered list: the value of its IDX_ macro *)
Definition idx_of (l : list string) (x : string) : option nat := index_of String.eqb x l.

Definition print_nat (n : nat) : string := print_Z (Z.of_nat n).

(* "#define IDX_<alias> <n>" and "IDX_<alias> = <n>" *)
Definition macro_lines (aliases : list string) : list string :=
  map (fun p : nat * string => "#define IDX_" ++ snd p ++ " " ++ print_nat (fst p)) (enumerate aliases).
Definition pyconst_lines (aliases : list string) : list string :=
  map (fun p : nat * string => "IDX_" ++ snd p ++ " = " ++ print_nat (fst p)) (enumerate aliases).

(* a legal C / Python identifier *)
Definition is_ident_start (c : ascii) : bool := is_upper c || is_lower c || Ascii.eqb c "_"%char.
Definition is_ident_char (c : ascii) : bool := is_alnum c || Ascii.eqb c "_"%char.
Definition c_ident (s : string) : bool :=
  match chars s with
  | [] => false
  | c :: r => is_ident_start c && forallb is_ident_char r
  end.

(* the alias as a function of (is_surface, case-normalised basename, charge) *)
Definition alias_of (surf : bool) (b : string) (ch : Z) : string :=
  (if surf then "G" else "") ++ b ++
  (if (0 <=? ch)%Z then repeat_string "I" (Z.to_nat (ch + 1)) else repeat_string "M" (Z.to_nat (- ch))).

Definition norm_basename (T : tables) (symtab : list string) (s : species) : string :=
  fold_left (fun acc kv => replace (fst kv) (snd kv) acc) (alias_table T symtab) (basename s).

(* elements of the network: the atoms among the species, keyed by their one element *)
Definition element_key (s : species) : string :=
  match sp_counts s with (k, _) :: _ => k | [] => "" end.
