(** L11: process-global state that code generation can depend on — Species._known_elements /
    _known_pseudoelements (re-installed by a network only when it carries its own lists) and
    chemistrydata.user_binding_energy (only ever updated).  Executable definitions only. *)
From Coq Require Import List Arith Bool String.
From Naunet Require Import Lib.ListX.
Import ListNotations.
Open Scope string_scope.

Record gstate := {
  g_elements : list string;
  g_pseudo : list string;
  g_binding : list (string * string);      (* user_binding_energy, as (species, value text) *)
}.
Definition fresh : gstate := {| g_elements := []; g_pseudo := []; g_binding := [] |}.

(* Species.known_elements() / known_pseudoelements(): the defaults while nothing was ever installed *)
Definition effective (default_e default_p : list string) (g : gstate) : list string * list string :=
  match g_elements g, g_pseudo g with
  | [], [] => (default_e, default_p)
  | e, p => (e, p)
  end.

(* what a network description says about the tables *)
Record ndesc := {
  nd_elements : list string;
  nd_pseudo : list string;
  nd_binding : list (string * string);     (* update_binding_energy(...) of the render command / the user *)
}.

Definition is_nil {X} (l : list X) : bool := match l with [] => true | _ => false end.

Fixpoint dict_update (kv : list (string * string)) (d : list (string * string)) : list (string * string) :=
  match kv with
  | [] => d
  | (k, v) :: r =>
      dict_update r
        ((fix put (l : list (string * string)) : list (string * string) :=
            match l with
            | [] => [(k, v)]
            | (k', v') :: t => if String.eqb k' k then (k', v) :: t else (k', v') :: put t
            end) d)
  end.

(* building / rendering a network: "if self._known_elements or self._known_pseudo_elements:
   Species.set_known_elements(...); Species.set_known_pseudoelements(...)" *)
Definition build (d : ndesc) (g : gstate) : gstate :=
  {| g_elements := if is_nil (nd_elements d) && is_nil (nd_pseudo d) then g_elements g else nd_elements d;
     g_pseudo := if is_nil (nd_elements d) && is_nil (nd_pseudo d) then g_pseudo g else nd_pseudo d;
     g_binding := dict_update (nd_binding d) (g_binding g) |}.

Definition history (ds : list ndesc) : gstate := fold_left (fun g d => build d g) ds fresh.

(* the tables and the user binding energy a species sees while network d is rendered after history ds *)
Definition tables_seen (de dp : list string) (ds : list ndesc) (d : ndesc) : list string * list string :=
  effective de dp (build d (history ds)).
Definition binding_seen (ds : list ndesc) (d : ndesc) (sp : string) : option string :=
  option_map snd (find (fun kv => String.eqb (fst kv) sp) (g_binding (build d (history ds)))).
