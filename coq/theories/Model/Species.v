(** L1: species names — mirrors Species.__init__/_parse_molecule_name/
    _add_element_count and the derived properties (charge, basename, gasname,
    alias, massnumber, is_atom, is_electron, __eq__, __hash__).
    Executable definitions only. *)
From Coq Require Import List Arith Bool String Ascii ZArith NArith.
From Naunet Require Import Lib.ListX Lib.PyStr Lib.Sexp.
Import ListNotations.
Open Scope string_scope.

(** process-global tables (Species._known_elements, _known_pseudoelements,
    _replacement) and the per-instance symbols *)
Record tables := {
  t_elements : list string;
  t_pseudo : list string;
  t_replacement : list (string * string);
}.
Record symbols := { y_grain : string; y_surface : string }.

Inductive perr : Type :=
| EStart                (* "starts with something unrecognizable" *)
| EUnrecognised         (* a leftover that is not a digit run *)
| ERepeatSurface
| ERepeatGrain.

(** a component is used as a regular expression by re.finditer; the model covers
    literal patterns and backslash-escaped characters (r"\*") *)
Fixpoint unescape (p : list ascii) : list ascii :=
  match p with
  | "\"%char :: c :: r => c :: unescape r
  | c :: r => c :: unescape r
  | [] => []
  end.

Record mtch := { m_start : nat; m_end : nat; m_text : list ascii }.

Definition mask (s : list ascii) (a b : nat) : list ascii :=
  (firstn a s ++ repeat_char " "%char (b - a) ++ skipn b s)%list.

(* stable sort by Python len, descending *)
Definition by_len_desc (a b : string) : bool := Nat.leb (String.length b) (String.length a).
Definition components (T : tables) (Y : symbols) : list string :=
  isort by_len_desc (t_elements T ++ t_pseudo T ++ [y_grain Y; y_surface Y])%list.

Fixpoint scan (comps : list string) (s : list ascii) (acc : list mtch) : list mtch :=
  match comps with
  | [] => acc
  | c :: r =>
      let t := unescape (chars c) in
      let n := List.length t in
      let starts := find_all t s in
      let s' := fold_left (fun cur st => mask cur st (st + n)) starts s in
      scan r s' (acc ++ map (fun st => {| m_start := st; m_end := st + n; m_text := t |}) starts)%list
  end.

Definition by_start (a b : mtch) : bool := Nat.leb (m_start a) (m_start b).

Record pstate := {
  p_counts : list (string * N);     (* element_count, insertion order *)
  p_surface : option N;             (* _surface_group when _is_surface *)
  p_grain : option N;               (* _grain_group when _is_grain *)
}.

Fixpoint counts_add (el : string) (c : N) (l : list (string * N)) : list (string * N) :=
  match l with
  | [] => [(el, c)]
  | (k, v) :: r => if String.eqb k el then (k, (v + c)%N) :: r else (k, v) :: counts_add el c r
  end.

Definition add_count (T : tables) (Y : symbols) (el : string) (count : N) (st : pstate)
  : perr + pstate :=
  if memb String.eqb el (t_pseudo T) then inr st
  else if String.eqb el (y_surface Y) then
    match p_surface st with
    | Some _ => inl ERepeatSurface
    | None => inr {| p_counts := p_counts st; p_surface := Some count; p_grain := p_grain st |}
    end
  else if String.eqb el (y_grain Y) then
    match p_grain st with
    | Some _ => inl ERepeatGrain
    | None => inr {| p_counts := counts_add el 1%N (p_counts st); p_surface := p_surface st;
                     p_grain := Some count |}
    end
  else
    let c := if N.eqb count 0 then 1%N else count in
    inr {| p_counts := counts_add el c (p_counts st); p_surface := p_surface st; p_grain := p_grain st |}.

Definition lookup_str (k : string) (l : list (string * string)) : option string :=
  option_map snd (find (fun kv => String.eqb (fst kv) k) l).
Definition replaced (T : tables) (n : string) : string :=
  match lookup_str n (t_replacement T) with Some v => v | None => n end.

(* the zip(starts, ends, matchnames) loop *)
Fixpoint count_loop (T : tables) (Y : symbols) (pn : list ascii)
         (zs : list (nat * nat * string)) (st : pstate) : perr + pstate :=
  match zs with
  | [] => inr st
  | (s, e, n) :: r =>
      let n' := replaced T n in
      let step :=
        if negb (Nat.eqb e s) then
          let sub := slice pn e s in
          if all_digits sub then add_count T Y n' (digits_val sub 0) st else inl EUnrecognised
        else if String.eqb n' (y_grain Y) || String.eqb n' (y_surface Y) then add_count T Y n' 0%N st
        else if negb (String.eqb n' "") then add_count T Y n' 1%N st
        else inr st in
      match step with
      | inl err => inl err
      | inr st' => count_loop T Y pn r st'
      end
  end.

Record species := {
  sp_name : string;
  sp_counts : list (string * N);
  sp_surface : option N;
  sp_grain : option N;
  sp_symbols : symbols;
}.

Definition parsename_of (name : list ascii) : list ascii :=
  strip_trailing_l "-"%char (strip_trailing_l "+"%char name).

Definition parse_species (T : tables) (Y : symbols) (name : string) : perr + species :=
  let nm := chars name in
  let pn := parsename_of nm in
  let charge := replace_l pn [] nm in
  let ms := isort by_start (scan (components T Y) pn []) in
  let starts := (map m_start ms ++ [List.length pn])%list in
  let ends := 0 :: map m_end ms in
  let names := "" :: map (fun m => str (m_text m)) ms in
  match starts with
  | 0 :: _ =>
      let zs := combine (combine starts ends) names in
      match count_loop T Y pn zs {| p_counts := []; p_surface := None; p_grain := None |} with
      | inl e => inl e
      | inr st =>
          let newname :=
            match t_replacement T with
            | [] => name
            | _ => str (flat_map (fun z : nat * nat * string =>
                                    let '(s, e, n) := z in
                                    (chars (replaced T n) ++ slice pn e s)%list) zs ++ charge)%list
            end in
          inr {| sp_name := newname; sp_counts := p_counts st; sp_surface := p_surface st;
                 sp_grain := p_grain st; sp_symbols := Y |}
      end
  | _ => inl EStart
  end.

(** derived properties *)
Definition is_electron (s : species) : bool :=
  let u := upper (sp_name s) in String.eqb u "E" || String.eqb u "E-".

Definition charge (s : species) : Z :=
  if is_electron s then (-1)%Z
  else (Z.of_nat (count_trailing_l "+"%char (chars (sp_name s)))
        - Z.of_nat (count_trailing_l "-"%char (chars (sp_name s))))%Z.

Definition is_surface (s : species) : bool := match sp_surface s with Some _ => true | None => false end.
Definition is_grain (s : species) : bool := match sp_grain s with Some _ => true | None => false end.

Definition print_N (n : N) : string := print_Z (Z.of_N n).

(* f"{self._surface_prefix}{self._surface_group or ''}" *)
Definition surface_prefix_text (s : species) : string :=
  y_surface (sp_symbols s) ++
  match sp_surface s with
  | Some g => if N.eqb g 0 then "" else print_N g
  | None => ""
  end.

Definition strip_charge (x : string) : string :=
  str (strip_trailing_l "-"%char (strip_trailing_l "+"%char (chars x))).

Definition basename (s : species) : string :=
  let b := if is_surface s then replace (surface_prefix_text s) "" (sp_name s) else sp_name s in
  if Z.eqb (charge s) 0 then b else strip_charge b.

Definition gasname (s : species) : string :=
  if is_surface s then replace (surface_prefix_text s) "" (sp_name s) else sp_name s.

(* dict comprehension {Symbol.upper(): Symbol ...} in table order, restricted to
   the keys present in the known-element list *)
Fixpoint dict_set (k v : string) (l : list (string * string)) : list (string * string) :=
  match l with
  | [] => [(k, v)]
  | (k', v') :: r => if String.eqb k' k then (k', v) :: r else (k', v') :: dict_set k v r
  end.
Definition alias_table (T : tables) (symbols_in_order : list string) : list (string * string) :=
  fold_left (fun acc sym => if memb String.eqb (upper sym) (t_elements T) then dict_set (upper sym) sym acc else acc)
            symbols_in_order [].

Fixpoint repeat_string (c : string) (n : nat) : string :=
  match n with O => "" | S m => c ++ repeat_string c m end.

Definition alias (T : tables) (symtab : list string) (s : species) : string :=
  let b := fold_left (fun acc kv => replace (fst kv) (snd kv) acc) (alias_table T symtab) (basename s) in
  (if is_surface s then "G" else "") ++ b ++
  (if (0 <=? charge s)%Z then repeat_string "I" (Z.to_nat (charge s + 1))
   else repeat_string "M" (Z.to_nat (- charge s))).

Definition count_of (el : string) (l : list (string * N)) : N :=
  match find (fun kv => String.eqb (fst kv) el) l with Some kv => snd kv | None => 0%N end.

(* sum over periodic_table + isotopes_table of element_count.get(Symbol, 0) * (N + Z) *)
Definition massnumber (masses : list (string * Z)) (s : species) : Z :=
  fold_left (fun acc e => (acc + Z.of_N (count_of (fst e) (sp_counts s)) * snd e)%Z) masses 0%Z.

Definition is_atom (s : species) : bool :=
  Nat.eqb (List.length (sp_counts s)) 1
  && N.eqb (fold_left (fun acc kv => (acc + snd kv)%N) (sp_counts s) 0%N) 1
  && Z.eqb (charge s) 0 && negb (is_electron s) && negb (is_surface s).

Definition optN_eqb (a b : option N) : bool :=
  match a, b with Some x, Some y => N.eqb x y | None, None => true | _, _ => false end.

(* Species.__eq__ *)
Definition sp_eqb (a b : species) : bool :=
  (is_electron a && is_electron b)
  || (is_grain a && is_grain b && optN_eqb (sp_grain a) (sp_grain b) && Z.eqb (charge a) (charge b))
  || (is_surface a && is_surface b && optN_eqb (sp_surface a) (sp_surface b)
      && Z.eqb (charge a) (charge b) && String.eqb (basename a) (basename b))
  || String.eqb (sp_name a) (sp_name b).

Definition py_bool (b : bool) : string := if b then "True" else "False".
Definition py_optN (o : option N) : string := match o with Some n => print_N n | None => "None" end.

(* the string Species.__hash__ hashes *)
Definition hash_key (s : species) : string :=
  if is_electron s then "Electron"
  else basename s ++ print_Z (charge s) ++ py_bool (is_grain s) ++ py_optN (sp_grain s)
       ++ py_bool (is_surface s) ++ py_optN (sp_surface s).

(** Component._create_species: None for "" and for pseudo-element names *)
Definition create_species (T : tables) (Y : symbols) (name : string) : option (perr + species) :=
  if String.eqb name "" || memb String.eqb name (t_pseudo T) then None
  else Some (parse_species T Y name).
