(** L9: the command-line -> configuration-file -> render path.  Mirrors InitCommand.handle /
    InitCommand.option (option-string parsing), BaseConfiguration.content (what is put under which
    TOML key) and RenderCommand.handle (what is read back).  tomlkit and cleo's tokenisation are
    not modelled: a TOML document is the record of values put into it.
    Executable definitions only. *)
From Coq Require Import List Arith Bool String Ascii.
From Naunet Require Import Lib.ListX Lib.PyStr.
Import ListNotations.
Open Scope string_scope.

(* InitCommand.option: every string value loses each occurrence of "null" *)
Definition opt_value (v : string) : string := replace "null" "" v.

Definition nonempty_s (s : string) : bool := negb (String.eqb s "").

(* [x.strip() for x in value.split(",") if x] *)
Definition parse_list (v : string) : list string :=
  map strip (filter nonempty_s (split_on ","%char v)).

(* {r.split(sep)[0]: r.split(sep)[1] for r in value.split(",") if r}, then keys and values stripped;
   None = IndexError (an entry without the separator); a later equal key overwrites an earlier one *)
Fixpoint dict_put (k v : string) (l : list (string * string)) : list (string * string) :=
  match l with
  | [] => [(k, v)]
  | (k', v') :: r => if String.eqb k' k then (k', v) :: r else (k', v') :: dict_put k v r
  end.
Fixpoint parse_entries (sep : ascii) (strip_it : bool) (es : list string) (acc : list (string * string))
  : option (list (string * string)) :=
  match es with
  | [] => Some acc
  | e :: r =>
      match split_on sep e with
      | k :: v :: _ =>
          let k' := if strip_it then strip k else k in
          let v' := if strip_it then strip v else v in
          parse_entries sep strip_it r (dict_put k' v' acc)
      | _ => None
      end
  end.
Definition parse_dict (sep : ascii) (strip_it : bool) (v : string) : option (list (string * string)) :=
  parse_entries sep strip_it (filter nonempty_s (split_on ","%char v)) [].

(* rate modifiers: --rate-modifier may be given several times; each value is a comma list of key:value *)
Definition parse_rate_mods (vs : list string) : option (list (string * string)) :=
  let items := flat_map (fun l => map strip (split_on ","%char l)) vs in
  (fix go (es : list string) (acc : list (string * string)) : option (list (string * string)) :=
     match es with
     | [] => Some acc
     | e :: r =>
         match split_on ":"%char e with
         | k :: v :: _ => go r (dict_put (strip k) (strip v) acc)
         | _ => None
         end
     end) items [].

(* ODE modifiers: "species:factor,[dep dep ...];species:factor,[...]" *)
Record omod := { om_key : string; om_factors : list string; om_reactants : list (list string) }.
Fixpoint om_add (key fact : string) (deps : list string) (l : list omod) : list omod :=
  match l with
  | [] => [{| om_key := key; om_factors := [fact]; om_reactants := [deps] |}]
  | m :: r =>
      if String.eqb (om_key m) key
      then {| om_key := key; om_factors := om_factors m ++ [fact]; om_reactants := om_reactants m ++ [deps] |} :: r
      else m :: om_add key fact deps r
  end.
Definition parse_om_item (om : string) : option (string * string * list string) :=
  match split_on ":"%char om with
  | [key; value] =>
      match split_on ","%char value with
      | [fact; rdep] => Some (key, fact, split_ws (strip (replace "]" "" (replace "[" "" rdep))))
      | _ => None
      end
  | _ => None
  end.
(* for om in l.split(";"): if not om: break *)
Fixpoint parse_om_line (items : list string) (acc : list omod) : option (list omod) :=
  match items with
  | [] => Some acc
  | om :: r =>
      if String.eqb om "" then Some acc
      else match parse_om_item om with
           | Some (k, f, d) => parse_om_line r (om_add k f d acc)
           | None => None
           end
  end.
Fixpoint parse_ode_mods (vs : list string) (acc : list omod) : option (list omod) :=
  match vs with
  | [] => Some acc
  | l :: r => match parse_om_line (split_on ";"%char l) acc with
              | Some acc' => parse_ode_mods r acc'
              | None => None
              end
  end.

(** the network description that reaches the configuration file *)
Record cfg := {
  c_name : string; c_description : string; c_loads : list string;
  c_elements : list string; c_pseudo : list string; c_replacement : list (string * string);
  c_grain : string; c_surface : string; c_bulk : string;
  c_allowed : list string; c_required : list string;
  c_binding : list (string * string); c_yield : list (string * string);
  c_grain_model : string; c_files : list string; c_formats : list string;
  c_heating : list string; c_cooling : list string; c_shielding : list (string * string);
  c_rate_mods : list (string * string); c_ode_mods : list omod;
  c_solver : string; c_device : string; c_method : string;
}.

(* the raw option strings of `naunet init` *)
Record opts := {
  o_name : string; o_description : string; o_loading : string;
  o_elements : string; o_pseudo : string; o_replacement : string;
  o_surface : string; o_bulk : string; o_allowed : string; o_extra : string;
  o_binding : string; o_yield : string; o_grain_symbol : string; o_grain_model : string;
  o_files : string; o_formats : string; o_heating : string; o_cooling : string; o_shielding : string;
  o_rate_mods : list string; o_ode_mods : list string;
  o_solver : string; o_device : string; o_method : string;
}.

(* InitCommand.handle + BaseConfiguration.content: None = the command raises.
   [bulk_key_ok]: whether the configuration reads the key it is given for the bulk prefix
   (regenerated from the source on every run) *)
Definition init_config (bulk_key_ok : bool) (o : opts) : option cfg :=
  let v := opt_value in
  match parse_dict ":"%char true (v (o_replacement o)), parse_dict "="%char false (v (o_binding o)),
        parse_dict "="%char false (v (o_yield o)), parse_dict ":"%char true (v (o_shielding o)),
        parse_rate_mods (map v (o_rate_mods o)), parse_ode_mods (map v (o_ode_mods o)) [] with
  | Some repl, Some bind, Some yld, Some shield, Some rm, Some om =>
      Some {| c_name := v (o_name o); c_description := v (o_description o);
              c_loads := map strip (filter nonempty_s (split_on ","%char (v (o_loading o))));
              c_elements := parse_list (v (o_elements o)); c_pseudo := parse_list (v (o_pseudo o));
              c_replacement := repl;
              c_grain := v (o_grain_symbol o); c_surface := v (o_surface o);
              c_bulk := if bulk_key_ok then v (o_bulk o) else "@";
              c_allowed := parse_list (v (o_allowed o)); c_required := parse_list (v (o_extra o));
              c_binding := bind; c_yield := yld; c_grain_model := v (o_grain_model o);
              c_files := parse_list (v (o_files o)); c_formats := parse_list (v (o_formats o));
              c_heating := parse_list (v (o_heating o)); c_cooling := parse_list (v (o_cooling o));
              c_shielding := shield; c_rate_mods := rm; c_ode_mods := om;
              c_solver := v (o_solver o); c_device := v (o_device o); c_method := v (o_method o) |}
  | _, _, _, _, _, _ => None
  end.

(** how a user writes a description on the command line (the reference encoder) *)
Definition comma (l : list string) : string := join ","%char l.
Definition kv (sep : string) (p : string * string) : string := fst p ++ sep ++ snd p.
Definition print_om (m : omod) : list string :=
  map (fun fd : string * list string => om_key m ++ ":" ++ fst fd ++ ",[" ++ join " "%char (snd fd) ++ "]")
      (combine (om_factors m) (om_reactants m)).
Definition print_opts (c : cfg) : opts :=
  {| o_name := c_name c; o_description := c_description c; o_loading := comma (c_loads c);
     o_elements := comma (c_elements c); o_pseudo := comma (c_pseudo c);
     o_replacement := comma (map (kv ":") (c_replacement c));
     o_surface := c_surface c; o_bulk := c_bulk c; o_allowed := comma (c_allowed c); o_extra := comma (c_required c);
     o_binding := comma (map (kv "=") (c_binding c)); o_yield := comma (map (kv "=") (c_yield c));
     o_grain_symbol := c_grain c; o_grain_model := c_grain_model c;
     o_files := comma (c_files c); o_formats := comma (c_formats c);
     o_heating := comma (c_heating c); o_cooling := comma (c_cooling c);
     o_shielding := comma (map (kv ":") (c_shielding c));
     o_rate_mods := map (kv ":") (c_rate_mods c);
     o_ode_mods := [join ";"%char (flat_map print_om (c_ode_mods c))];
     o_solver := c_solver c; o_device := c_device c; o_method := c_method c |}.

(** ** solver / device / method selection of `naunet init`:
      choices = allowed_method.get(solver).get(device)
      if method is None and choices: method = choice(..., choices, 0)      (the first choice when not interactive)
      elif method not in choices: raise ValueError
    An unknown solver or device makes the look-up fail (AttributeError / TypeError): refused as well. *)
Inductive selection := SelRefused | SelKept (m : string) | SelDefault (m : string).

Definition alookup {A} (k : string) (l : list (string * A)) : option A :=
  match find (fun p => String.eqb (fst p) k) l with Some p => Some (snd p) | None => None end.

Definition select_method (tbl : list (string * list (string * list string))) (solver device : string) (method : option string) : selection :=
  match alookup solver tbl with
  | None => SelRefused
  | Some devs =>
      match alookup device devs with
      | None => SelRefused
      | Some choices =>
          match method, choices with
          | None, c :: _ => SelDefault c
          | None, [] => SelRefused
          | Some m, _ => if existsb (String.eqb m) choices then SelKept m else SelRefused
          end
      end
  end.
