(** The shape into which harness/gen_ratesrc.py translates a rateexpr() method of /repo on every run
    (coq/gen/RateLive.v): one entry per branch of its if/elif chain. *)
From Coq Require Import List String.
From Naunet Require Import Model.CExpr Model.RateGas.
Import ListNotations.

Inductive src_branch :=
| SText (t : txt)          (* straight-line f-strings assigned to `rate`, as an atom string over a, b, c *)
| SGrain                   (* rate = grain.rateexpr(self): the dust model decides (C11) *)
| SRaise (exc : string)    (* raise exc(...) *)
| SOther (code : string).  (* any other branch: its source text, pinned textually *)

(* what the method returns for a branch: the tail of every method is  rate = self._beautify(rate); return rate *)
Definition run_branch (b : src_branch) : option (refusal + txt) :=
  match b with
  | SText t => Some (inr (beautify t))
  | SRaise "NotImplementedError" => Some (inl RNotImplemented)
  | SRaise _ => Some (inl RUnknown)
  | SGrain | SOther _ => None
  end.
