(** L4: assembly of the ODE right-hand side, the Jacobian, its CSR form and the
    pattern — mirrors TemplateLoader._prepare_ode_content / render (index level).
    Executable definitions only. *)
From Coq Require Import List Arith Bool String.
From Naunet Require Import Lib.ListX.
Import ListNotations.

(** a summand of an emitted expression:  (+|-) coef * y[v1] * y[v2] ...  *)
Inductive coef : Type :=
| CK (l : nat)        (* k[l]  *)
| CKH (h : nat)       (* kh[h] *)
| CKC (c : nat)       (* kc[c] *)
| CF (f : string).    (* (fact) of an ODE modifier, verbatim *)

Record term := { t_neg : bool; t_coef : coef; t_vars : list nat }.

(** an emitted right-hand side is the text "0.0" followed by the summands *)
Definition eqn := list term.

Record rxn := { reac : list nat; prod : list nat }.
(** ODE modifier: target equation, list of (factor, dependency species) *)
Record omod := { m_target : nat; m_terms : list (string * list nat) }.

Definition add_at (i : nat) (t : term) (v : list eqn) : list eqn :=
  update_nth i (fun e => e ++ [t]) v.

Definition add_many (idxs : list nat) (t : term) (v : list eqn) : list eqn :=
  fold_left (fun a i => add_at i t a) idxs v.

(** for specidx in targets: for ri in rs: jac[specidx*n+ri] += sign c*Π(rs minus one ri) *)
Definition jac_block (neg : bool) (c : coef) (n : nat) (targets rs : list nat)
           (v : list eqn) : list eqn :=
  fold_left (fun a sp =>
    fold_left (fun a' ri =>
      add_at (sp * n + ri) {| t_neg := neg; t_coef := c; t_vars := remove1 Nat.eqb ri rs |} a')
      rs a) targets v.

Record ode_state := { st_rhs : list eqn; st_jac : list eqn }.

Definition reaction_step (n : nat) (l : nat) (r : rxn) (s : ode_state) : ode_state :=
  let tm := {| t_neg := true; t_coef := CK l; t_vars := reac r |} in
  let tp := {| t_neg := false; t_coef := CK l; t_vars := reac r |} in
  {| st_rhs := add_many (prod r) tp (add_many (reac r) tm (st_rhs s));
     st_jac := jac_block false (CK l) n (prod r) (reac r)
                 (jac_block true (CK l) n (reac r) (reac r) (st_jac s)) |}.

Fixpoint reactions_loop (n : nat) (l : nat) (rs : list rxn) (s : ode_state) : ode_state :=
  match rs with
  | [] => s
  | r :: rest => reactions_loop n (S l) rest (reaction_step n l r s)
  end.

(** one (fact, deps) pair of a modifier on equation [sidx] *)
Definition modterm_step (n sidx : nat) (fd : string * list nat) (s : ode_state) : ode_state :=
  let '(f, deps) := fd in
  {| st_rhs := add_at sidx {| t_neg := false; t_coef := CF f; t_vars := deps |} (st_rhs s);
     st_jac := fold_left (fun a d =>
                 add_at (sidx * n + d)
                   {| t_neg := false; t_coef := CF f; t_vars := remove1 Nat.eqb d deps |} a)
                 deps (st_jac s) |}.

Definition mod_step (n : nat) (s : ode_state) (m : omod) : ode_state :=
  fold_left (fun a fd => modterm_step n (m_target m) fd a) (m_terms m) s.

(** heating (neg=false, CKH) and cooling (neg=true, CKC) processes: only the
    temperature row n_spec *)
Definition thermal_step (n nspec : nat) (neg : bool) (c : coef) (rs : list nat)
           (s : ode_state) : ode_state :=
  {| st_rhs := add_at nspec {| t_neg := neg; t_coef := c; t_vars := rs |} (st_rhs s);
     st_jac := fold_left (fun a ri =>
                 add_at (nspec * n + ri)
                   {| t_neg := neg; t_coef := c; t_vars := remove1 Nat.eqb ri rs |} a)
                 rs (st_jac s) |}.

Fixpoint thermal_loop (n nspec : nat) (neg : bool) (mk : nat -> coef) (h : nat)
         (ps : list (list nat)) (s : ode_state) : ode_state :=
  match ps with
  | [] => s
  | rs :: rest => thermal_loop n nspec neg mk (S h) rest (thermal_step n nspec neg (mk h) rs s)
  end.

Record ode_input := {
  i_nspec : nat;
  i_rxns : list rxn;
  i_mods : list omod;
  i_heat : list (list nat);
  i_cool : list (list nat);
}.

Definition has_thermal (i : ode_input) : bool :=
  match i_heat i, i_cool i with [], [] => false | _, _ => true end.

Definition n_eqns (i : ode_input) : nat :=
  Nat.max (i_nspec i + (if has_thermal i then 1 else 0)) 1.

Definition ode_terms (i : ode_input) : ode_state :=
  let n := n_eqns i in
  let s0 := {| st_rhs := repeat [] n; st_jac := repeat [] (n * n) |} in
  let s1 := reactions_loop n 0 (i_rxns i) s0 in
  let s2 := fold_left (mod_step n) (i_mods i) s1 in
  let s3 := thermal_loop n (i_nspec i) false CKH 0 (i_heat i) s2 in
  thermal_loop n (i_nspec i) true CKC 0 (i_cool i) s3.

(** the thermal row is wrapped as "(gamma - 1.0) * ( ... ) / kerg / npar":
    always for the right-hand side, for a Jacobian entry only when it is not "0.0" *)
Definition rhs_wrapped (i : ode_input) (row : nat) : bool :=
  has_thermal i && Nat.eqb row (i_nspec i).
Definition jac_wrapped (i : ode_input) (row col : nat) (e : eqn) : bool :=
  has_thermal i && Nat.eqb row (i_nspec i) && Nat.ltb col (i_nspec i)
  && match e with [] => false | _ => true end.

(** an entry is the literal "0.0" iff nothing was appended to it *)
Definition is_zero (e : eqn) : bool := match e with [] => true | _ => false end.

(** CSR: mirrors the row/col/nnz loop *)
Section Csr.
Context {X : Type}.
Variable zero : X -> bool.
Variable dflt : X.

Record csr_t := { c_rptr : list nat; c_cols : list nat; c_vals : list X; c_nnz : nat }.

Definition csr_col (n row : nat) (jac : list X) (c : csr_t) (col : nat) : csr_t :=
  let elem := nth (row * n + col) jac dflt in
  if zero elem then c
  else {| c_rptr := c_rptr c; c_cols := c_cols c ++ [col]; c_vals := c_vals c ++ [elem];
          c_nnz := S (c_nnz c) |}.

Definition csr_row (n : nat) (jac : list X) (c : csr_t) (row : nat) : csr_t :=
  let c1 := {| c_rptr := c_rptr c ++ [c_nnz c]; c_cols := c_cols c; c_vals := c_vals c;
               c_nnz := c_nnz c |} in
  fold_left (csr_col n row jac) (seq 0 n) c1.

Definition csr (n : nat) (jac : list X) : csr_t :=
  let c := fold_left (csr_row n jac) (seq 0 n)
             {| c_rptr := []; c_cols := []; c_vals := []; c_nnz := 0 |} in
  {| c_rptr := c_rptr c ++ [c_nnz c]; c_cols := c_cols c; c_vals := c_vals c; c_nnz := c_nnz c |}.

(** dense / odeint templates: for r in jac.rhs: if r != "0.0":
      IJth(jmatrix, (loop.index0/neqns)|int, loop.index0 % neqns) = r *)
Definition dense_assign (n : nat) (jac : list X) : list (nat * nat * X) :=
  flat_map (fun p : nat * X =>
              if zero (snd p) then [] else [(fst p / n, fst p mod n, snd p)])
           (enumerate jac).

(** what a CSR matrix stores, as (row, col, value) triples in storage order *)
Fixpoint csr_triples_rows (row : nat) (rptr : list nat) (cols : list nat) (vals : list X)
  : list (nat * nat * X) :=
  match rptr with
  | a :: ((b :: _) as rest) =>
      let k := b - a in
      map (fun cv : nat * X => (row, fst cv, snd cv)) (combine (firstn k cols) (firstn k vals))
      ++ csr_triples_rows (S row) rest (skipn k cols) (skipn k vals)
  | _ => []
  end.
Definition csr_triples (c : csr_t) := csr_triples_rows 0 (c_rptr c) (c_cols c) (c_vals c).

(** jac_pattern.dat: one row per equation of 0/1 flags *)
Definition pattern (n : nat) (jac : list X) : list (list bool) :=
  map (fun row => map (fun x => negb (zero x)) (firstn n (skipn (row * n) jac))) (seq 0 n).
End Csr.
