(** The batched (cuSPARSE) kernels: a grid-stride loop per thread over the systems of a batch.
    Model of the loop skeleton of FexKernel / JacKernel:
      for (cur = tidx; cur < nsystem; cur += gs) body(cur)
    with tidx ranging over the gs threads of the launch. *)
From Coq Require Import List Arith PeanoNat.
Import ListNotations.

(* the systems one thread visits, in order; fuel bounds the number of iterations *)
Fixpoint stride_loop (fuel gs n cur : nat) : list nat :=
  match fuel with
  | O => []
  | S f => if cur <? n then cur :: stride_loop f gs n (cur + gs) else []
  end.

Definition thread_visits (gs n tidx : nat) : list nat := stride_loop n gs n tidx.

(* a kernel whose body computes [f] of the current system (derived variables included) *)
Definition kernel_out {S O : Type} (f : S -> O) (batch : list S) : list O := map f batch.
(* the defective skeleton: derived variables computed once from the base pointer (system 0) *)
Definition kernel_out_sys0 {S O : Type} (g : S -> S -> O) (batch : list S) : list O :=
  match batch with [] => [] | s0 :: _ => map (g s0) batch end.


(** where system [s] of a batch keeps slot [i] of an array that has [stride] slots per system (abundances and derivatives:
    NEQUATIONS; Jacobian values: NNZ): "y + cur * NEQUATIONS", "data[cur * NNZ + n]" *)
Definition block_index (stride s i : nat) : nat := s * stride + i.
