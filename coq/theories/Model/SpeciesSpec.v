(** C08: the abstract reading of a rendered species name (items = symbol text +
    digit run) and the decidable premises of the round-trip theorem.
    Executable definitions only. *)
From Coq Require Import List Arith Bool String Ascii ZArith NArith.
From Naunet Require Import Lib.ListX Lib.PyStr Model.Species.
Import ListNotations.

Definition txt (c : string) : list ascii := unescape (chars c).

(** intended tokens: (start, text) *)
Definition tok := (nat * list ascii)%type.
Definition tend (a : tok) : nat := fst a + List.length (snd a).

(** ** rendering a name from items *)
Definition item := (list ascii * list ascii)%type.     (* symbol text, digit run *)
Fixpoint render (its : list item) : list ascii :=
  match its with [] => [] | (t, d) :: r => (t ++ d ++ render r)%list end.
Fixpoint positions (p : nat) (its : list item) : list tok :=
  match its with
  | [] => []
  | (t, d) :: r => (p, t) :: positions (p + List.length t + List.length d) r
  end.

(** ** the counting loop over rendered items *)
Definition item_step (T : tables) (Y : symbols) (t d : list ascii) (st : pstate) : perr + pstate :=
  let n' := replaced T (str t) in
  if negb (Nat.eqb (List.length d) 0) then
    if all_digits d then add_count T Y n' (digits_val d 0) st else inl EUnrecognised
  else if String.eqb n' (y_grain Y) || String.eqb n' (y_surface Y) then add_count T Y n' 0%N st
  else if negb (String.eqb n' "") then add_count T Y n' 1%N st
  else inr st.

Fixpoint items_loop (T : tables) (Y : symbols) (its : list item) (st : pstate) : perr + pstate :=
  match its with
  | [] => inr st
  | (t, d) :: r =>
      match item_step T Y t d st with
      | inl e => inl e
      | inr st' => items_loop T Y r st'
      end
  end.

Definition st0 : pstate := {| p_counts := []; p_surface := None; p_grain := None |}.

Definition tok_eqb (a b : tok) : bool := Nat.eqb (fst a) (fst b) && list_eqb Ascii.eqb (snd a) (snd b).
Definition overlapsb (st n : nat) (a : tok) : bool := Nat.ltb (fst a) (st + n) && Nat.ltb st (tend a).

Definition unambiguousb (comps : list string) (pn : list ascii) (toks : list tok) : bool :=
  forallb (fun c => negb (Nat.eqb (List.length (txt c)) 0)) comps &&
  forallb (fun kc : nat * string =>
    let '(k, c) := kc in
    let t := txt c in
    let done := map txt (firstn k comps) in
    forallb (fun st =>
      if starts_with t (skipn st pn) then
        memb tok_eqb (st, t) toks ||
        existsb (fun a => memb (list_eqb Ascii.eqb) (snd a) done && overlapsb st (List.length t) a) toks
      else true) (seq 0 (S (List.length pn)))) (enumerate comps).

(** decidable form of [wf_tables] *)
Definition no_blankb (t : list ascii) : bool := negb (memb Ascii.eqb " "%char t).
Definition wf_tablesb (T : tables) (Y : symbols) : bool :=
  forallb (fun c => no_blankb (unescape (chars c))) (components T Y).

(** decidable premises of the ice-species theorem (C08.ice_species_counterpart) *)
Definition group_okb (d : list ascii) : bool :=
  match d with
  | [] => true
  | c :: _ => forallb is_digit d && negb (Ascii.eqb c "0"%char)
  end.
Definition group_of (d : list ascii) : N := match d with [] => 0%N | _ => digits_val d 0 end.
Definition no_occb (p s : list ascii) : bool :=
  negb (Nat.eqb (List.length p) 0) &&
  forallb (fun st => negb (starts_with p (skipn st s))) (seq 0 (S (List.length s))).
