(** C01 (text level): the emitted right-hand side as an atom string.  Mirrors the
    string concatenations of TemplateLoader._prepare_ode_content:
      "0.0", then per term " - k[l]*y[IDX_a]*y[IDX_b]" (reactions) or
      " + kh[h] * y[IDX_a]*y[IDX_b]" / " - kc[c] * ..." (thermal processes).
    Reaction numbers are magnitude atoms, index macros identifier atoms.
    Executable definitions only. *)
From Coq Require Import List Arith Bool String Ascii.
From Naunet Require Import Lib.ListX Lib.PyStr Model.CExpr Model.OdeGen.
Import ListNotations.

Inductive sub := SMag (i : nat) | SName (i : nat).

Definition sub_sym (s : sub) : sym := match s with SMag i => M i | SName i => N i end.
(* array names used by the generator *)
Inductive arr := AK | AKH | AKC | AY.
Definition arr_name (a : arr) : list ascii :=
  match a with AK => ["k"%char] | AKH => ["k"%char; "h"%char] | AKC => ["k"%char; "c"%char] | AY => ["y"%char] end.
Definition fac_txt (a : arr) (s : sub) : txt := (map C (arr_name a) ++ [C "["%char; sub_sym s; C "]"%char])%list.

Record tterm := { tt_neg : bool; tt_arr : arr; tt_idx : nat; tt_spaced : bool; tt_vars : list nat }.
Definition more_txt (vs : list nat) : txt := flat_map (fun w => C "*"%char :: fac_txt AY (SName w)) vs.
Definition vars_txt (spaced : bool) (vs : list nat) : txt :=
  match vs with
  | [] => []
  | v :: r => ((if spaced then [C " "%char; C "*"%char; C " "%char] else [C "*"%char]) ++ fac_txt AY (SName v) ++ more_txt r)%list
  end.
Definition term_txt (t : tterm) : txt :=
  ([C " "%char; C (if tt_neg t then "-"%char else "+"%char); C " "%char] ++ fac_txt (tt_arr t) (SMag (tt_idx t))
   ++ vars_txt (tt_spaced t) (tt_vars t))%list.
Definition zero_lit : list ascii := ["0"%char; "."%char; "0"%char].
Definition rhs_txt (ts : list tterm) : txt := (map C zero_lit ++ flat_map term_txt ts)%list.

Definition arr_of (c : coef) : option (arr * nat) :=
  match c with CK l => Some (AK, l) | CKH h => Some (AKH, h) | CKC c => Some (AKC, c) | CF _ => None end.

(* a term of the index-level model as text: thermal terms are written with blanks around the first '*' *)
Definition tterm_of (t : term) : option tterm :=
  match arr_of (t_coef t) with
  | Some (a, i) => Some {| tt_neg := t_neg t; tt_arr := a; tt_idx := i;
                           tt_spaced := match a with AK => false | _ => true end; tt_vars := t_vars t |}
  | None => None
  end.

Fixpoint tterms_of (e : eqn) : option (list tterm) :=
  match e with
  | [] => Some []
  | t :: r => match tterm_of t, tterms_of r with Some x, Some xs => Some (x :: xs) | _, _ => None end
  end.

(* the Jacobian writes thermal terms with a bare star ('*'.join), the right-hand side with blanks around the first one *)
Definition unspaced (ts : list tterm) : list tterm :=
  map (fun t => {| tt_neg := tt_neg t; tt_arr := tt_arr t; tt_idx := tt_idx t; tt_spaced := false; tt_vars := tt_vars t |}) ts.

(** the temperature row is wrapped:  f"(gamma - 1.0) * ( {rhs} ) / kerg / npar" *)
Definition wrap_pre_txt : txt := tx "(gamma - 1.0) * ( ".
Definition wrap_post_txt : txt := tx " ) / kerg / npar".
Definition wrapped_txt (ts : list tterm) : txt := (wrap_pre_txt ++ rhs_txt ts ++ wrap_post_txt)%list.

(** ** rows holding ODE-modifier terms:  f" + ({fact}) * {'*'.join(deps)}"  (right-hand side) and
    " + " + '*'.join([f"({fact})", *deps])  (Jacobian); the factor is arbitrary user text *)
Inductive gterm := GR (t : tterm) | GM (spaced : bool) (fact : string) (vs : list nat).
Definition gterm_txt (g : gterm) : txt :=
  match g with
  | GR t => term_txt t
  | GM sp f vs => (tx " + (" ++ tx f ++ [C ")"%char] ++ vars_txt sp vs)%list
  end.
Definition grhs_txt (gs : list gterm) : txt := (map C zero_lit ++ flat_map gterm_txt gs)%list.

Definition gterm_of (spaced : bool) (t : term) : option gterm :=
  match t_coef t with
  | CF f => if t_neg t then None else Some (GM spaced f (t_vars t))
  | _ => match tterm_of t with Some x => Some (GR x) | None => None end
  end.
Fixpoint gterms_of (spaced : bool) (e : eqn) : option (list gterm) :=
  match e with
  | [] => Some []
  | t :: r => match gterm_of spaced t, gterms_of spaced r with Some x, Some xs => Some (x :: xs) | _, _ => None end
  end.

(* every modifier factor of the row parses on its own as a C expression (decidable premise of the theorems) *)
Definition facts_parse (gs : list gterm) : bool :=
  forallb (fun g => match g with GR _ => true | GM _ f _ => match parse (tx f) with Some _ => true | None => false end end) gs.

(* the right-hand side writes " * " after the factor even when the modifier has no dependency (not C): excluded *)
Definition gdeps_ok (gs : list gterm) : bool :=
  forallb (fun g => match g with GM true _ [] => false | _ => true end) gs.
