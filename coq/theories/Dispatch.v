(** The single entry point of the extracted model: one request line in,
    one reply line out. *)
From Coq Require Import List String.
From Naunet Require Import Lib.Sexp Wire.W15 Wire.WOde Wire.WRates Wire.WNet Wire.WSpecies Wire.WIndex Wire.WDecode Wire.WRate Wire.WGrain Wire.WNative Wire.WRenorm Wire.WSolve Wire.WKrome Wire.WConfig Wire.WGlobals Wire.WSymbols Wire.WPhysics.
Import ListNotations.
Open Scope string_scope.

Definition handlers : list (string -> list sexp -> option sexp) :=
  [ handle15; handle_ode; handle_rates; handle_net; handle_species; handle_index; handle_decode; handle_rate; handle_grain; handle_native; handle_renorm; handle_solve; handle_krome; handle_config; handle_globals; handle_symbols; handle_physics ].

Fixpoint try_handlers (hs : list (string -> list sexp -> option sexp))
         (cmd : string) (args : list sexp) : sexp :=
  match hs with
  | [] => err ("unknown command " ++ cmd)
  | h :: r => match h cmd args with
              | Some x => x
              | None => try_handlers r cmd args
              end
  end.

Definition dispatch_sexp (x : sexp) : sexp :=
  match x with
  | L (A cmd :: args) => try_handlers handlers cmd args
  | _ => err "malformed request"
  end.

Definition dispatch (req : string) : string :=
  match parse_sexp req with
  | Some x => print_sexp (dispatch_sexp x)
  | None => print_sexp (err "unparsable request")
  end.
