From Coq Require Import List String Bool Arith Ascii.
From Naunet Require Import Lib.Sexp Lib.ListX Lib.PyStr Model.CExpr Model.Krome.
Import ListNotations.
Open Scope string_scope.

Fixpoint get_ftree (fuel : nat) (x : sexp) : option ftree :=
  match fuel with
  | O => None
  | S f =>
      match x with
      | L [A "t"; A s] => Some (FTok s)
      | L [A "n"; A rule; L kids] =>
          option_map (FNode rule) (all_some (map (get_ftree f) kids))
      | _ => None
      end
  end.

Definition nospace (s : string) : string := str (filter (fun c => negb (is_space c)) (chars s)).

Definition handle_krome (cmd : string) (args : list sexp) : option sexp :=
  if String.eqb cmd "krome.check" then
    match args with
    | [A rate; tree] =>
        match get_ftree 200 tree with
        | Some t =>
            Some (L [A (prepass rate); A (yield_f t); A (to_c t); bs (validate t);
                     bs (match parse_fortran (yield_f t) with Some _ => true | None => false end);
                     bs (match parse_c (to_c t) with Some _ => true | None => false end)])
        | None => Some (err "bad tree")
        end
    | _ => Some (err "bad args")
    end
  else if String.eqb cmd "krome.prepass" then
    match args with
    | [A rate] => Some (A (prepass rate))
    | _ => Some (err "bad args")
    end
  else None.
