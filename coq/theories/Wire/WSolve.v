From Coq Require Import List String ZArith QArith Bool Arith Ascii.
From Naunet Require Import Lib.Sexp Lib.ListX Model.Solve Wire.WRates.
Import ListNotations.
Close Scope Q_scope.
Open Scope string_scope.

Definition get_outcome (x : sexp) : option outcome :=
  match x with
  | A "ok" => Some COk
  | L [f; rho] => match get_Z f, get_Q rho with Some f, Some rho => Some (CFail f rho) | _, _ => None end
  | _ => None
  end.
Definition get_routcome (x : sexp) : option routcome :=
  match x with
  | A "ok" => Some ROk
  | A f => option_map RFail (parse_Z f)
  | _ => None
  end.

(* g level step from a table: row level-1, column step-1 *)
Definition g_of (tab : list (list Q)) (level step : nat) : Q :=
  nth (step - 1) (nth (level - 1) tab []) (1#1)%Q.

Definition put_res (r : result) : sexp := A (match r with Success => "success" | Failure => "failure" end).

Definition handle_solve (cmd : string) (args : list sexp) : option sexp :=
  if String.eqb cmd "solve.run" then
    match args with
    | [dt; y0; cs; rs; tab] =>
        match get_Q dt, get_Q y0, get_list get_outcome cs, get_list get_routcome rs, get_list (get_list get_Q) tab with
        | Some dt, Some y0, Some cs, Some rs, Some tab =>
            let '(res, y, calls, reinits, logged) := solve (g_of tab) dt y0 cs rs in
            Some (L [put_res res; put_Q (Qred y); ns calls; ns reinits;
                     match logged with Some v => put_Q (Qred v) | None => A "none" end])
        | _, _, _, _, _ => Some (err "bad args")
        end
    | _ => Some (err "bad args")
    end
  else if String.eqb cmd "solve.cusparse" then
    match args with
    | [dt; y0; cs] =>
        match get_Q dt, get_Q y0, get_list get_outcome cs with
        | Some dt, Some y0, Some cs => let '(res, y) := solve_cusparse dt y0 cs in Some (L [put_res res; put_Q (Qred y)])
        | _, _, _ => Some (err "bad args")
        end
    | _ => Some (err "bad args")
    end
  else if String.eqb cmd "solve.odeint" then
    match args with
    | [mx; n] => match get_nat mx, get_nat n with
                 | Some mx, Some n => Some (put_res (solve_odeint mx n))
                 | _, _ => Some (err "bad args")
                 end
    (* Init with budget b0, Reset with budget mx, then one Solve (C19.odeint_budget_is_the_last_given) *)
    | [mx; n; b0] => match get_nat mx, get_nat n, get_nat b0 with
                     | Some mx, Some n, Some b0 => Some (put_res (last (odeint_history 0 [OInit b0; OReset mx; OSolve n]) Success))
                     | _, _, _ => Some (err "bad args")
                     end
    | _ => Some (err "bad args")
    end
  else None.
