From Coq Require Import List String ZArith Bool Arith.
From Naunet Require Import Lib.Sexp Lib.ListX Lib.PyStr Model.CExpr Model.OdeGen Model.OdeText.
Import ListNotations.
Open Scope string_scope.

Definition get_rxn (x : sexp) : option rxn :=
  match x with
  | L [r; p] =>
      match get_list get_nat r, get_list get_nat p with
      | Some r, Some p => Some {| reac := r; prod := p |}
      | _, _ => None
      end
  | _ => None
  end.

Definition get_fd (x : sexp) : option (string * list nat) :=
  match x with
  | L [A f; d] => option_map (fun d => (f, d)) (get_list get_nat d)
  | _ => None
  end.

Definition get_mod (x : sexp) : option omod :=
  match x with
  | L [t; fds] =>
      match get_nat t, get_list get_fd fds with
      | Some t, Some fds => Some {| m_target := t; m_terms := fds |}
      | _, _ => None
      end
  | _ => None
  end.

Definition get_input (args : list sexp) : option ode_input :=
  match args with
  | [ns; rs; ms; hs; cs] =>
      match get_nat ns, get_list get_rxn rs, get_list get_mod ms,
            get_list (get_list get_nat) hs, get_list (get_list get_nat) cs with
      | Some ns, Some rs, Some ms, Some hs, Some cs =>
          Some {| i_nspec := ns; i_rxns := rs; i_mods := ms; i_heat := hs; i_cool := cs |}
      | _, _, _, _, _ => None
      end
  | _ => None
  end.

Definition put_term (t : term) : sexp :=
  let '(kind, v) := match t_coef t with
                    | CK l => ("k", ns l) | CKH h => ("kh", ns h)
                    | CKC c => ("kc", ns c) | CF f => ("f", A f)
                    end in
  L [bs (t_neg t); A kind; v; L (map ns (t_vars t))].

Definition put_eqn (w : bool) (e : eqn) : sexp := L [bs w; L (map put_term e)].

Definition handle_ode (cmd : string) (args : list sexp) : option sexp :=
  if String.eqb cmd "ode.terms" then
    match get_input args with
    | Some i =>
        let n := n_eqns i in
        let s := ode_terms i in
        let rhs := map (fun p : nat * eqn => put_eqn (rhs_wrapped i (fst p)) (snd p))
                       (enumerate (st_rhs s)) in
        let jw := map (fun p : nat * eqn =>
                         (snd p, jac_wrapped i (fst p / n) (fst p mod n) (snd p)))
                      (enumerate (st_jac s)) in
        let zero := fun x : eqn * bool => is_zero (fst x) in
        let c := csr zero ([], false) n jw in
        let put_ew := fun x : eqn * bool => put_eqn (snd x) (fst x) in
        Some (L [ns n;
                 L rhs;
                 L (map put_ew jw);
                 L [L (map ns (c_rptr c)); L (map ns (c_cols c)); L (map put_ew (c_vals c)); ns (c_nnz c)];
                 L (map (fun t : nat * nat * (eqn * bool) =>
                           L [ns (fst (fst t)); ns (snd (fst t)); put_ew (snd t)])
                        (dense_assign zero n jw));
                 L (map (fun t : nat * nat * (eqn * bool) =>
                           L [ns (fst (fst t)); ns (snd (fst t)); put_ew (snd t)])
                        (csr_triples c));
                 L (map (fun row => L (map bs row)) (pattern zero n jw))])
    | None => Some (err "bad ode input")
    end
  else if String.eqb cmd "ode.rowtext" then
    (* the text of every species row as the generator writes it (C01.rhs_text_is_mass_action):
       args = the ode input followed by the species aliases; "none" for a row holding a modifier factor *)
    match args with
    | [ns_; rs; ms; hs; cs; als] =>
        match get_input [ns_; rs; ms; hs; cs], get_list get_str als with
        | Some i, Some als =>
            let name := fun v => chars ("IDX_" ++ nth v als "?") in
            let mag := fun n => chars (print_Z (Z.of_nat n)) in
            Some (L (map (fun s =>
                            (* rows with modifier terms: C01.rhs_text_with_modifiers_is_law; "none" when a
                               factor does not parse as C or a modifier has no dependency *)
                            match gterms_of true (nth s (st_rhs (ode_terms i)) []) with
                            | Some gs => if facts_parse gs && gdeps_ok gs
                                         then A (str (flatten_with mag name (grhs_txt gs))) else A "none"
                            | None => A "none"
                            end) (seq 0 (i_nspec i))
                     ++ (* the wrapped temperature row, when there is one *)
                        (if has_thermal i then
                           [match tterms_of (nth (i_nspec i) (st_rhs (ode_terms i)) []) with
                            | Some ts => A (str (flatten_with mag name (wrapped_txt ts)))
                            | None => A "none"
                            end]
                         else [])))
        | _, _ => Some (err "bad ode input")
        end
    | _ => Some (err "bad args")
    end
  else if String.eqb cmd "ode.jactext" then
    (* the text of every Jacobian entry, temperature row and column included (C02.jac_text_is_derivative,
       C02.jac_thermal_text_is_derivative), row-major;
       "none" for an entry holding a modifier factor *)
    match args with
    | [ns_; rs; ms; hs; cs; als] =>
        match get_input [ns_; rs; ms; hs; cs], get_list get_str als with
        | Some i, Some als =>
            let name := fun v => chars ("IDX_" ++ nth v als "?") in
            let mag := fun n => chars (print_Z (Z.of_nat n)) in
            let n := n_eqns i in
            Some (L (map (fun rc : nat * nat =>
                            let e := nth (fst rc * n + snd rc) (st_jac (ode_terms i)) [] in
                            match tterms_of e with
                            | Some ts =>
                                (* temperature row (C02.jac_thermal_text_is_derivative): wrapped unless "0.0" *)
                                if jac_wrapped i (fst rc) (snd rc) e
                                then A (str (flatten_with mag name (wrapped_txt (unspaced ts))))
                                else A (str (flatten_with mag name (rhs_txt (unspaced ts))))
                            | None =>
                                (* entries with modifier terms (C02.jac_text_with_modifiers_is_derivative) *)
                                match gterms_of false e with
                                | Some gs => if facts_parse gs && negb (jac_wrapped i (fst rc) (snd rc) e)
                                             then A (str (flatten_with mag name (grhs_txt gs))) else A "none"
                                | None => A "none"
                                end
                            end)
                         (flat_map (fun r => map (fun c => (r, c)) (seq 0 n)) (seq 0 n))))
        | _, _ => Some (err "bad ode input")
        end
    | _ => Some (err "bad args")
    end
  else None.
