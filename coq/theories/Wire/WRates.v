From Coq Require Import List String ZArith QArith Bool Arith Ascii.
From Naunet Require Import Lib.Sexp Lib.ListX Model.Rates.
Import ListNotations.
Close Scope Q_scope.
Open Scope string_scope.

Fixpoint split_slash (s : string) (acc : string) : string * option string :=
  match s with
  | EmptyString => (rev_string acc, None)
  | String "/"%char r => (rev_string acc, Some r)
  | String c r => split_slash r (String c acc)
  end.

(* "num/den" with den > 0, or "num" *)
Definition get_Q (x : sexp) : option Q :=
  match x with
  | A s =>
      match split_slash s EmptyString with
      | (n, None) => option_map (fun z => Qmake z 1) (parse_Z n)
      | (n, Some d) =>
          match parse_Z n, parse_Z d with
          | Some n, Some (Zpos d) => Some (Qmake n d)
          | _, _ => None
          end
      end
  | L _ => None
  end.

Definition put_Q (q : Q) : sexp := A (print_Z (Qnum q) ++ "/" ++ print_Z (Zpos (Qden q))).

Definition get_src (x : sexp) : option rate_src :=
  match x with
  | L [a; b; A e] =>
      match get_Q a, get_Q b with
      | Some a, Some b => Some {| r_tmin := a; r_tmax := b; r_expr := e |}
      | _, _ => None
      end
  | _ => None
  end.

Definition get_kv (x : sexp) : option (Z * string) :=
  match x with
  | L [k; A v] => option_map (fun k => (k, v)) (get_Z k)
  | _ => None
  end.

Definition put_stmt (s : rate_stmt) : sexp :=
  let g := match rs_guard s with
           | NoGuard => L [A "none"]
           | Lower a => L [A "lower"; put_Q a]
           | Upper b => L [A "upper"; put_Q b]
           | Both a b => L [A "both"; put_Q a; put_Q b]
           end in
  L [g; ns (rs_index s); A (rs_expr s)].

Definition handle_rates (cmd : string) (args : list sexp) : option sexp :=
  if String.eqb cmd "rates.assign" then
    match args with
    | [srcs; mods; idxs] =>
        match get_list get_src srcs, get_list get_kv mods, get_list get_Z idxs with
        | Some srcs, Some mods, Some idxs =>
            let idxs' := render_indices idxs in
            Some (L [L (map put_stmt (apply_rate_mods mods idxs' (assign_rates srcs)));
                     L (map zs idxs')])
        | _, _, _ => Some (err "bad rates input")
        end
    | _ => Some (err "bad args")
    end
  else if String.eqb cmd "rates.active" then
    match args with
    | [a; b; t] =>
        match get_Q a, get_Q b, get_Q t with
        | Some a, Some b, Some t => Some (L [bs (active a b t); bs (guard_holds (mk_guard a b) t)])
        | _, _, _ => Some (err "bad numbers")
        end
    | _ => Some (err "bad args")
    end
  else None.
