From Coq Require Import List String ZArith NArith Bool Arith.
From Naunet Require Import Lib.Sexp Lib.ListX Lib.PyStr Model.Species Model.SpeciesSpec.
From NaunetGen Require Import Tables.
Import ListNotations.
Open Scope string_scope.

Definition get_pair (x : sexp) : option (string * string) :=
  match x with L [A k; A v] => Some (k, v) | _ => None end.

Definition get_tables (e p r : sexp) : option tables :=
  match get_list get_str e, get_list get_str p, get_list get_pair r with
  | Some e, Some p, Some r => Some {| t_elements := e; t_pseudo := p; t_replacement := r |}
  | _, _, _ => None
  end.

Definition get_item_case (x : sexp) : option (string * list (string * string)) :=
  match x with
  | L [A n; its] => match get_list get_pair its with Some l => Some (n, l) | None => None end
  | _ => None
  end.

Definition symtab : list string := map fst element_massnumber.

Definition put_optN (o : option N) : sexp := match o with Some n => A (print_N n) | None => A "none" end.

Definition put_species (T : tables) (s : species) : sexp :=
  L [A "ok"; A (sp_name s);
     L (map (fun kv : string * N => L [A (fst kv); A (print_N (snd kv))]) (sp_counts s));
     put_optN (sp_surface s); put_optN (sp_grain s);
     zs (charge s); A (basename s); A (gasname s); A (alias T symtab s);
     zs (massnumber element_massnumber s); bs (is_atom s); bs (is_electron s); A (hash_key s)].

Definition put_perr (e : perr) : sexp :=
  L [A "err"; A (match e with EStart => "start" | EUnrecognised => "unrecognised"
                           | ERepeatSurface => "repeat-surface" | ERepeatGrain => "repeat-grain" end)].

Definition handle_species (cmd : string) (args : list sexp) : option sexp :=
  if String.eqb cmd "sp.parse" then
    match args with
    | [e; p; r; A g; A sfx; names] =>
        match get_tables e p r, get_list get_str names with
        | Some T, Some names =>
            let Y := {| y_grain := g; y_surface := sfx |} in
            Some (L (map (fun n => match parse_species T Y n with
                                   | inl er => put_perr er
                                   | inr s => put_species T s
                                   end) names))
        | _, _ => Some (err "bad tables")
        end
    | _ => Some (err "bad args")
    end
  else if String.eqb cmd "sp.eq" then
    match args with
    | [e; p; r; A g; A sfx; pairs] =>
        match get_tables e p r, get_list get_pair pairs with
        | Some T, Some pairs =>
            let Y := {| y_grain := g; y_surface := sfx |} in
            Some (L (map (fun ab : string * string =>
                            match parse_species T Y (fst ab), parse_species T Y (snd ab) with
                            | inr a, inr b => bs (sp_eqb a b)
                            | _, _ => A "err"
                            end) pairs))
        | _, _ => Some (err "bad tables")
        end
    | _ => Some (err "bad args")
    end
  else if String.eqb cmd "sp.create" then
    match args with
    | [e; p; r; A g; A sfx; names] =>
        match get_tables e p r, get_list get_str names with
        | Some T, Some names =>
            let Y := {| y_grain := g; y_surface := sfx |} in
            Some (L (map (fun n => match create_species T Y n with
                                   | None => A "none"
                                   | Some (inl er) => put_perr er
                                   | Some (inr s) => A (sp_name s)
                                   end) names))
        | _, _ => Some (err "bad tables")
        end
    | _ => Some (err "bad args")
    end
  else if String.eqb cmd "sp.items" then
    (* the premises of C08.name_roundtrip evaluated on a rendered name, and the
       abstract result [items_loop] the theorem equates the parser with *)
    match args with
    | [e; p; r; A g; A sfx; cases] =>
        match get_tables e p r, get_list get_item_case cases with
        | Some T, Some cases =>
            let Y := {| y_grain := g; y_surface := sfx |} in
            let comps := components T Y in
            let texts := map txt comps in
            Some (L (map (fun c : string * list (string * string) =>
                let its := map (fun td : string * string => (chars (fst td), chars (snd td))) (snd c) in
                let pn := render its in
                L [bs (wf_tablesb T Y);
                   bs (list_eqb Ascii.eqb (parsename_of (chars (fst c))) pn);
                   bs (forallb (fun it : item => memb (list_eqb Ascii.eqb) (fst it) texts
                                                 && negb (Nat.eqb (List.length (fst it)) 0)) its);
                   bs (unambiguousb comps pn (positions 0 its));
                   (* premises of C08.ice_species_counterpart when the first item is the surface symbol:
                      group digits well formed, prefix text absent from the rest (charge signs included) *)
                   match its with
                   | (t0, d0) :: rest =>
                       if list_eqb Ascii.eqb t0 (chars sfx) then
                         let restc := skipn (List.length t0 + List.length d0) (chars (fst c)) in
                         L [bs (group_okb d0 && no_occb (t0 ++ d0) restc
                                && negb (String.eqb g "") && negb (String.eqb sfx "")
                                && negb (memb String.eqb sfx (t_pseudo T))
                                && match t_replacement T with [] => true | _ => false end);
                            A (print_N (group_of d0)); A (str restc)]
                       else A "none"
                   | [] => A "none"
                   end;
                   match items_loop T Y (([], []) :: its) st0 with
                   | inl er => put_perr er
                   | inr st => L [A "ok";
                                  L (map (fun kv : string * N => L [A (fst kv); A (print_N (snd kv))]) (p_counts st));
                                  put_optN (p_surface st); put_optN (p_grain st)]
                   end]) cases))
        | _, _ => Some (err "bad tables")
        end
    | _ => Some (err "bad args")
    end
  else None.
