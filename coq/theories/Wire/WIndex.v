From Coq Require Import List String ZArith NArith Bool Arith.
From Naunet Require Import Lib.Sexp Lib.ListX Lib.PyStr Model.Species Model.Index Wire.WSpecies.
From NaunetGen Require Import Tables.
Import ListNotations.
Open Scope string_scope.

Definition handle_index (cmd : string) (args : list sexp) : option sexp :=
  if String.eqb cmd "idx.order" then
    match args with
    | [sp; rs] =>
        match get_list get_str sp, get_list (get_list get_str) rs with
        | Some sp, Some rs =>
            let l := species_order sp rs in
            Some (L [L (map A l); L (map (fun x => ns (degree rs x)) l)])
        | _, _ => Some (err "bad args")
        end
    | _ => Some (err "bad args")
    end
  else if String.eqb cmd "idx.emit" then
    match args with
    | [e; p; r; A g; A sfx; names] =>
        match get_tables e p r, get_list get_str names with
        | Some T, Some names =>
            let Y := {| y_grain := g; y_surface := sfx |} in
            let sps := map (parse_species T Y) names in
            let aliases := map (fun x => match x with inr s => alias T symtab s | inl _ => "?" end) sps in
            let atoms := flat_map (fun x => match x with
                                            | inr s => if is_atom s then [element_key s] else []
                                            | inl _ => [] end) sps in
            Some (L [L (map A aliases); L (map A (macro_lines aliases)); L (map A (pyconst_lines aliases));
                     L (map A atoms);
                     L (map (fun a => bs (c_ident ("IDX_" ++ a))) aliases)])
        | _, _ => Some (err "bad tables")
        end
    | _ => Some (err "bad args")
    end
  else None.
