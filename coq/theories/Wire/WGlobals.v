From Coq Require Import List String Bool Arith Ascii.
From Naunet Require Import Lib.Sexp Lib.ListX Model.Globals Wire.WSpecies.
From NaunetGen Require Import Tables.
Import ListNotations.
Open Scope string_scope.

Definition get_ndesc (x : sexp) : option ndesc :=
  match x with
  | L [e; p; b] =>
      match get_list get_str e, get_list get_str p, get_list get_pair b with
      | Some e, Some p, Some b => Some {| nd_elements := e; nd_pseudo := p; nd_binding := b |}
      | _, _, _ => None
      end
  | _ => None
  end.

Definition handle_globals (cmd : string) (args : list sexp) : option sexp :=
  if String.eqb cmd "glob.history" then
    match args with
    | [ds; d] =>
        match get_list get_ndesc ds, get_ndesc d with
        | Some ds, Some d =>
            let '(e, p) := tables_seen default_elements default_pseudoelements ds d in
            let g := build d (history ds) in
            Some (L [L (map A e); L (map A p); L (map (fun kv : string * string => L [A (fst kv); A (snd kv)]) (g_binding g))])
        | _, _ => Some (err "bad args")
        end
    | _ => Some (err "bad args")
    end
  else None.
