From Coq Require Import List String ZArith QArith Bool Arith Ascii.
From Naunet Require Import Lib.Sexp Lib.ListX Lib.PyStr Model.CExpr Model.OdeText Model.SumText Model.Renorm Model.RenormText Wire.WRates.
Import ListNotations.
Close Scope Q_scope.
Open Scope string_scope.

Definition get_rsp (x : sexp) : option rsp :=
  match x with
  | L [cs; mass; A e] =>
      match get_list get_Z cs, get_Q mass with
      | Some cs, Some mass => Some {| r_cnt := cs; r_mass := mass; r_elec := String.eqb e "1" |}
      | _, _ => None
      end
  | _ => None
  end.

Definition put_term (t : term) : sexp := L [put_Q (Qred (fst (fst t))); ns (snd (fst t)); put_Q (Qred (snd t))].

Definition handle_renorm (cmd : string) (args : list sexp) : option sexp :=
  if String.eqb cmd "renorm.terms" then
    match args with
    | [elA; sps] =>
        match get_list get_Q elA, get_list get_rsp sps with
        | Some elA, Some sps =>
            Some (L [L (map (fun l => L (map put_term l)) (matrix elA sps));
                     L (map (fun o => match o with None => A "one" | Some l => L (map put_term l) end) (factors elA sps))])
        | _, _ => Some (err "bad args")
        end
    | _ => Some (err "bad args")
    end
  else if String.eqb cmd "renorm.text" then
    (* the texts of C16.matrix_text_value / factor_text_value: printed numbers appear as {num/den} (the harness
       writes them as Python prints the float), identifiers as the given aliases / element names *)
    match args with
    | [elA; sps; als; els] =>
        match get_list get_Q elA, get_list get_rsp sps, get_list get_str als, get_list get_str els with
        | Some elA, Some sps, Some als, Some els =>
            let hn := List.length sps in
            let qtxt := fun q : Q => match put_Q (Qred q) with A t => chars ("{" ++ t ++ "}") | _ => [] end in
            let magt := fix magt (a : nat) (l : list term) (i : nat) : list ascii :=
                          match l with
                          | [] => []
                          | t :: r => if Nat.eqb i (2 * a) then qtxt (fst (fst t))
                                      else if Nat.eqb i (2 * a + 1) then qtxt (snd t) else magt (S a) r i
                          end in
            let sname := fun k => if Nat.eqb k hn then chars "Hnuclei" else chars ("IDX_" ++ nth k als "?") in
            let ename := fun j => chars ("IDX_ELEM_" ++ nth j els "?") in
            Some (L [L (map (fun l => A (str (flatten_with (magt 0 l) sname (matrix_entry_txt hn (atoms_from 0 l)))))
                            (matrix elA sps));
                     L (map (fun o => match o with
                                      | None => A "one"
                                      | Some l => match factor_txt (atoms_from 0 l) with
                                                  | Some t => A (str (flatten_with (magt 0 l) ename t))
                                                  | None => A "one"
                                                  end
                                      end) (factors elA sps))])
        | _, _, _, _ => Some (err "bad args")
        end
    | _ => Some (err "bad args")
    end
  else None.
