From Coq Require Import List String ZArith QArith Bool Arith Ascii.
From Naunet Require Import Lib.Sexp Lib.ListX Model.Renorm Wire.WRates.
Import ListNotations.
Close Scope Q_scope.
Open Scope string_scope.

Definition get_rsp (x : sexp) : option rsp :=
  match x with
  | L [cs; mass; A e] =>
      match get_list get_Z cs, get_Q mass with
      | Some cs, Some mass => Some {| r_cnt := cs; r_mass := mass; r_elec := String.eqb e "1" |}
      | _, _ => None
      end
  | _ => None
  end.

Definition put_term (t : term) : sexp := L [put_Q (Qred (fst (fst t))); ns (snd (fst t)); put_Q (Qred (snd t))].

Definition handle_renorm (cmd : string) (args : list sexp) : option sexp :=
  if String.eqb cmd "renorm.terms" then
    match args with
    | [elA; sps] =>
        match get_list get_Q elA, get_list get_rsp sps with
        | Some elA, Some sps =>
            Some (L [L (map (fun l => L (map put_term l)) (matrix elA sps));
                     L (map (fun o => match o with None => A "one" | Some l => L (map put_term l) end) (factors elA sps))])
        | _, _ => Some (err "bad args")
        end
    | _ => Some (err "bad args")
    end
  else None.
