From Coq Require Import List String ZArith Bool Arith Ascii.
From Naunet Require Import Lib.Sexp Lib.ListX Lib.PyStr Model.CExpr Model.RateGas Model.RateGrain Wire.WRate Proofs.ReplaceBridge.
From NaunetGen Require Import Tables.
Import ListNotations.
Open Scope string_scope.

Definition get_model (s : string) : option gmodel :=
  if String.eqb s "base" then Some GBase else if String.eqb s "hh93" then Some GHH93
  else if String.eqb s "hh93i" then Some GHH93 else if String.eqb s "rr07" then Some GRR07
  else if String.eqb s "rr07x" then Some GRR07X else None.
Definition proc_names : list (string * gproc) :=
  [("recombine", PRecombine); ("freeze", PFreeze); ("thermal", PThermal); ("photon", PPhoton); ("cosmicray", PCosmicray);
   ("h2", PH2); ("surface", PSurface); ("reactive", PReactive); ("ecapture", PEcapture)].
Fixpoint lookup {V} (k : string) (l : list (string * V)) : option V :=
  match l with [] => None | (k', v) :: r => if String.eqb k k' then Some v else lookup k r end.
Definition get_hv (s : string) : hvariant :=
  if String.eqb s "both" then HBoth else if String.eqb s "first" then HFirst
  else if String.eqb s "second" then HSecond else HNone.
Definition get_dv (s : string) : dvariant :=
  if String.eqb s "electron" then DElectron else if String.eqb s "ion" then DIon else DNeutral.

Definition handle_grain (cmd : string) (args : list sexp) : option sexp :=
  if String.eqb cmd "grain.emit" then
    match args with
    | [A m; A p; A ka; mags; rs; A g; A eb1; A hv; A dv] =>
        match get_model m, lookup p proc_names, get_cls ka, get_list get_str mags, get_list get_str rs with
        | Some m, Some p, Some ka, Some mags, Some [tg; td; cr; zi; rf; av; h2] =>
            let R := {| s_tgas := tg; s_tdust := td; s_crrate := cr; s_zism := zi; s_radfield := rf; s_av := av; s_h2form := h2 |} in
            Some (match grain_rate m p ka (get_hv hv) (get_dv dv) with
                  | inl _ => L [A "refused"; A "notimplemented"]
                  | inr s =>
                      let b := beautify s in
                      L [A "ok";
                         A (str (flatten_with (fun i => chars (nth i mags "?")) (fun i => chars (name_of R g eb1 i)) b));
                         bs (no_bad_token b); bs (match parse b with Some _ => true | None => false end);
                         bs (forallb (fun x => match x with C _ => true | M i => atom_ok (chars (nth i mags "?")) | N i => atom_ok (chars (name_of R g eb1 i)) end) s)]
                  end)
        | _, _, _, _, _ => Some (err "bad args")
        end
    | _ => Some (err "bad args")
    end
  else None.
