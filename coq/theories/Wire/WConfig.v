From Coq Require Import List String Bool Arith Ascii.
From Naunet Require Import Lib.Sexp Lib.ListX Lib.PyStr Model.Config.
From NaunetGen Require Import Tables.
Import ListNotations.
Open Scope string_scope.

Definition put_pairs (l : list (string * string)) : sexp := L (map (fun p : string * string => L [A (fst p); A (snd p)]) l).
Definition put_strs (l : list string) : sexp := L (map A l).
Definition put_om (m : omod) : sexp := L [A (om_key m); put_strs (om_factors m); L (map put_strs (om_reactants m))].

Definition put_cfg (c : cfg) : sexp :=
  L [A (c_name c); A (c_description c); put_strs (c_loads c); put_strs (c_elements c); put_strs (c_pseudo c);
     put_pairs (c_replacement c); A (c_grain c); A (c_surface c); A (c_bulk c); put_strs (c_allowed c); put_strs (c_required c);
     put_pairs (c_binding c); put_pairs (c_yield c); A (c_grain_model c); put_strs (c_files c); put_strs (c_formats c);
     put_strs (c_heating c); put_strs (c_cooling c); put_pairs (c_shielding c); put_pairs (c_rate_mods c);
     L (map put_om (c_ode_mods c)); A (c_solver c); A (c_device c); A (c_method c)].

Definition handle_config (cmd : string) (args : list sexp) : option sexp :=
  if String.eqb cmd "cfg.init" then
    match args with
    | [A nm; A ds; A ld; A el; A ps; A rp; A sf; A bk; A al; A ex; A bd; A yl; A gs; A gm; A fl; A fm; A ht; A cl; A sh; rms; oms; A sv; A dv; A mt] =>
        match get_list get_str rms, get_list get_str oms with
        | Some rms, Some oms =>
            let o := {| o_name := nm; o_description := ds; o_loading := ld; o_elements := el; o_pseudo := ps; o_replacement := rp;
                        o_surface := sf; o_bulk := bk; o_allowed := al; o_extra := ex; o_binding := bd; o_yield := yl;
                        o_grain_symbol := gs; o_grain_model := gm; o_files := fl; o_formats := fm; o_heating := ht; o_cooling := cl;
                        o_shielding := sh; o_rate_mods := rms; o_ode_mods := oms; o_solver := sv; o_device := dv; o_method := mt |} in
            Some (match init_config config_bulk_key_ok o with Some c => L [A "ok"; put_cfg c] | None => L [A "raises"] end)
        | _, _ => Some (err "bad args")
        end
    | _ => Some (err "bad args")
    end
  else if String.eqb cmd "cfg.select" then
    (* C20.selection_kept_or_refused on the live table: args = solver, device, method ("" = not given) *)
    match args with
    | [A sv; A dv; A mt] =>
        Some (match select_method init_allowed_methods sv dv (match mt with EmptyString => None | _ => Some mt end) with
              | SelRefused => L [A "refused"]
              | SelKept m => L [A "kept"; A m]
              | SelDefault m => L [A "default"; A m]
              end)
    | _ => Some (err "bad args")
    end
  else None.
