From Coq Require Import List String ZArith Bool Arith.
From Naunet Require Import Lib.Sexp Lib.ListX Model.Dup.
Import ListNotations.
Open Scope string_scope.

Definition get_rxn_key (x : sexp) : option rxn_key :=
  match x with
  | L [r; p; rn; pn; A tmin; A tmax; A tminf; A tmaxf; ty; A tname] =>
      match get_list get_nat r, get_list get_nat p,
            get_list get_str rn, get_list get_str pn, get_Z ty with
      | Some r, Some p, Some rn, Some pn, Some ty =>
          Some {| k_reac := r; k_prod := p; k_rnames := rn; k_pnames := pn;
                  k_tmin := tmin; k_tmax := tmax; k_tminf := tminf; k_tmaxf := tmaxf;
                  k_type := ty; k_tname := tname |}
      | _, _, _, _, _ => None
      end
  | _ => None
  end.

Definition get_nat_pair (x : sexp) : option (nat * nat) :=
  match x with
  | L [a; b] => match get_nat a, get_nat b with Some a, Some b => Some (a, b) | _, _ => None end
  | _ => None
  end.

Definition handle15 (cmd : string) (args : list sexp) : option sexp :=
  if String.eqb cmd "c15.finddup" then
    match args with
    | [A mode; rs] =>
        match get_list get_rxn_key rs with
        | Some ks =>
            let '(d, f) := find_dup (mode_eqb mode) ks in
            let kept := remove_idxs d ks in
            let '(d2, f2) := find_dup (mode_eqb mode) kept in
            Some (L [L (map ns d); L (map ns f); L (map ns d2); L (map ns f2)])
        | None => Some (err "bad reactions")
        end
    | _ => Some (err "bad args")
    end
  else if String.eqb cmd "c15.hash" then
    (* Reaction.__hash__ as lists: args = species (identity, hash class) table, reactions *)
    match args with
    | [hm; rs] =>
        match get_list get_nat_pair hm, get_list get_rxn_key rs with
        | Some hm, Some ks =>
            let h := fun i => match find (fun p : nat * nat => Nat.eqb (fst p) i) hm with Some p => snd p | None => 0 end in
            Some (L (map (fun k => L (map ns (rxn_hash h k))) ks))
        | _, _ => Some (err "bad reactions")
        end
    | _ => Some (err "bad args")
    end
  else None.
