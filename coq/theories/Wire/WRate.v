From Coq Require Import List String ZArith Bool Arith Ascii.
From Naunet Require Import Lib.Sexp Lib.ListX Lib.PyStr Model.CExpr Model.RateGas Wire.WDecode Proofs.ReplaceBridge.
From NaunetGen Require Import Tables.
Import ListNotations.
Open Scope string_scope.

Definition get_cls (s : string) : option cls :=
  if String.eqb s "pos" then Some Pos else if String.eqb s "neg" then Some Neg
  else if String.eqb s "zero" then Some Zero else if String.eqb s "negzero" then Some NegZero else None.

Definition put_rate (mags : list string) (r : refusal + txt) : sexp :=
  match r with
  | inl RNotImplemented => L [A "refused"; A "notimplemented"]
  | inl RUnknown => L [A "refused"; A "unknown"]
  | inr s => L [A "ok"; A (str (flatten (fun i => chars (nth i mags "?")) s));
                bs (no_bad_token s); bs (match parse s with Some _ => true | None => false end);
                bs (forallb (fun m => atom_ok (chars m)) (firstn 3 mags))]   (* hypothesis of beautify_bridge *)
  end.

(* the type codes come from the live ReactionType enum *)
Definition live_umist := fun ka kb kc => umist_rate ka kb kc (rt "GAS_TWOBODY") (rt "GAS_PHOTON") (rt "GAS_COSMICRAY") (rt "GAS_UMIST_CRPHOT").
Definition live_ucl := fun ka kb kc => uclchem_rate ka kb kc (rt "GAS_TWOBODY") (rt "GAS_COSMICRAY") (rt "GAS_UMIST_CRPHOT") (rt "GAS_PHOTON").
Definition live_native := fun ka kb kc =>
  native_rate ka kb kc native_beautifies (rt "GAS_TWOBODY") (rt "GAS_COSMICRAY") (rt "GAS_PHOTON") (rt "GAS_KIDA_IP1")
              (rt "GAS_KIDA_IP2") (rt "GAS_UMIST_CRPHOT") (rt "DUMMY").

Definition handle_rate (cmd : string) (args : list sexp) : option sexp :=
  if String.eqb cmd "rate.emit" then
    match args with
    | [A f; code; A ka; A kb; A kc; mags; A extra] =>
        match get_cls ka, get_cls kb, get_cls kc, get_list get_str mags with
        | Some ka, Some kb, Some kc, Some mags =>
            let r :=
              if String.eqb f "kida" then
                match get_Z code with Some z => Some (kida_rate ka kb kc z) | None => None end
              else if String.eqb f "umist" then
                Some (live_umist ka kb kc (get_Z code))
              else if String.eqb f "leeds" then
                match get_Z code with Some z => Some (leeds_rate ka kb kc z extra) | None => None end
              else if String.eqb f "uclchem" then
                match get_Z code with Some z => Some (live_ucl ka kb kc z (String.eqb extra "co")) | None => None end
              else if String.eqb f "naunet" then
                match get_Z code with Some z => Some (live_native ka kb kc z) | None => None end
              else None in
            match r with Some r => Some (put_rate mags r) | None => Some (err "bad format/code") end
        | _, _, _, _ => Some (err "bad classes")
        end
    | _ => Some (err "bad args")
    end
  else None.
