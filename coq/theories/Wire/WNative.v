From Coq Require Import List String ZArith Bool Arith Ascii.
From Naunet Require Import Lib.Sexp Lib.ListX Lib.PyStr Model.Decode Model.NativeFmt.
Import ListNotations.
Open Scope string_scope.

Definition get_nrec (x : sexp) : option nrec :=
  match x with
  | L [A idx; re; pr; A a; A b; A c; A lt; A ut; A ty; A src] =>
      match get_list get_str re, get_list get_str pr with
      | Some re, Some pr => Some {| n_idx := idx; n_reac := re; n_prod := pr; n_a := a; n_b := b; n_c := c;
                                    n_lt := lt; n_ut := ut; n_type := ty; n_source := src |}
      | _, _ => None
      end
  | _ => None
  end.

Definition put_nrec (r : nrec) : sexp :=
  L [A (n_idx r); L (map A (n_reac r)); L (map A (n_prod r)); A (n_a r); A (n_b r); A (n_c r);
     A (n_lt r); A (n_ut r); A (n_type r); A (n_source r)].

Definition handle_native (cmd : string) (args : list sexp) : option sexp :=
  if String.eqb cmd "nat.write" then
    match args with
    | [pseudo; rs] =>
        match get_list get_str pseudo, get_list get_nrec rs with
        | Some pseudo, Some rs =>
            let lines := write_native rs in
            Some (L [L (map A lines);
                     L (map (fun l => match reread pseudo l with Some r => put_nrec r | None => A "error" end) lines);
                     (* second cycle: what is written from what was read back *)
                     L (map (fun l => match reread pseudo l with Some r => A (fmt_native r) | None => A "error" end) lines)])
        | _, _ => Some (err "bad args")
        end
    | _ => Some (err "bad args")
    end
  else None.
