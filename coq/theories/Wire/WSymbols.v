From Coq Require Import List String Bool Arith Ascii.
From Naunet Require Import Lib.Sexp Lib.ListX Model.Symbols.
Import ListNotations.
Open Scope string_scope.

Definition get_regvar (x : sexp) : option regvar :=
  match x with
  | L [A n; A s; A v; A k] =>
      let kind := if String.eqb k "const" then Some KConst else if String.eqb k "param" then Some KParam
                  else if String.eqb k "derived" then Some KDerived else None in
      option_map (fun kd => {| rv_name := n; rv_symbol := s; rv_value := v; rv_kind := kd |}) kind
  | _ => None
  end.

Definition put_kvs (l : list (string * string)) : sexp := L (map (fun p : string * string => L [A (fst p); A (snd p)]) l).

Definition handle_symbols (cmd : string) (args : list sexp) : option sexp :=
  if String.eqb cmd "sym.unit" then
    match args with
    | [macros; comps; uses] =>
        match get_list get_str macros, get_list (get_list get_regvar) comps, get_list get_str uses with
        | Some macros, Some comps, Some uses =>
            Some (L [put_kvs (collect KParam comps); put_kvs (collect KDerived comps); put_kvs (collect KConst comps);
                     bs (unit_closed macros comps uses); L (map A (undeclared macros comps uses))])
        | _, _, _ => Some (err "bad args")
        end
    | _ => Some (err "bad args")
    end
  else None.
