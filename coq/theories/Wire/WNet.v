From Coq Require Import List String ZArith Bool Arith.
From Naunet Require Import Lib.Sexp Lib.ListX Model.Dup Model.Network Wire.W15.
Import ListNotations.
Open Scope string_scope.

Definition get_rx (x : sexp) : option rx :=
  match x with
  | L [tag; idx; key] =>
      match get_nat tag, get_Z idx, get_rxn_key key with
      | Some t, Some i, Some k => Some {| rx_tag := t; rx_idx := i; rx_key := k |}
      | _, _, _ => None
      end
  | _ => None
  end.

Definition get_op (x : sexp) : option op :=
  match x with
  | L [A "add"; r] => option_map Add (get_rx r)
  | L [A "rmidx"; i] => option_map RemoveIdx (get_nat i)
  | L [A "rmidxs"; l] => option_map RemoveIdxs (get_list get_nat l)
  | L [A "rminst"; r] => option_map RemoveInst (get_rx r)
  | L [A "rminsts"; l] => option_map RemoveInsts (get_list get_rx l)
  | L [A "allowed"; l] => option_map SetAllowed (get_list get_nat l)
  | L [A "required"; l] => option_map SetRequired (get_list get_nat l)
  | L [A "rmdups"] => Some RemoveDups
  | L [A "reindex"] => Some Reindex
  | _ => None
  end.

Definition put_net (s : net) : sexp :=
  L [ L (map (fun r => L [ns (rx_tag r); zs (rx_idx r)]) (rl s));
      L (map (fun r => ns (rx_tag r)) (skipped s));
      L (map ns (isort Nat.leb (reactants s)));
      L (map ns (isort Nat.leb (products s)));
      L (map ns (isort Nat.leb (sources s)));
      L (map ns (isort Nat.leb (sinks s)));
      L (map ns (isort Nat.leb (species_set s))) ].

(* replies with the observable state after every operation *)
Fixpoint run_trace (s : net) (ops : list op) : list sexp :=
  match ops with
  | [] => []
  | o :: r => let s' := step s o in put_net s' :: run_trace s' r
  end.

Definition handle_net (cmd : string) (args : list sexp) : option sexp :=
  if String.eqb cmd "net.run" then
    match args with
    | [a; q; ops] =>
        match get_list get_nat a, get_list get_nat q, get_list get_op ops with
        | Some a, Some q, Some ops => Some (L (run_trace (empty_net a q) ops))
        | _, _, _ => Some (err "bad net input")
        end
    | _ => Some (err "bad args")
    end
  else if String.eqb cmd "net.extend" then
    (* the `naunet extend` pipeline (Model.Network.extend): reactions, reduce ("none" | ids), remove ids, dups flag,
       append steps [[(x, y) ...], type]; replies with (reactant ids, product ids, type, index) of the result in order *)
    match args with
    | [rs; red; rem; A dups; aps] =>
        let get_pair := fun x => match x with L [a; b] => match get_nat a, get_nat b with Some a, Some b => Some (a, b) | _, _ => None end | _ => None end in
        let get_ap := fun x => match x with
                               | L [m; t] => match get_list get_pair m, get_Z t with
                                             | Some m, Some t => Some ((fun x => option_map snd (find (fun p => Nat.eqb (fst p) x) m)), t)
                                             | _, _ => None end
                               | _ => None end in
        match get_list get_rx rs, (match red with A "none" => Some None | l => option_map Some (get_list get_nat l) end),
              get_list get_nat rem, get_list get_ap aps with
        | Some rs, Some red, Some rem, Some aps =>
            let s := extend red rem (String.eqb dups "1") aps rs in
            Some (L (map (fun r => L [L (map ns (rx_reac r)); L (map ns (rx_prod r)); zs (k_type (rx_key r)); zs (rx_idx r)]) (rl s)))
        | _, _, _, _ => Some (err "bad extend input")
        end
    | _ => Some (err "bad args")
    end
  else None.
