From Coq Require Import List String ZArith NArith Bool Arith.
From Naunet Require Import Lib.Sexp Lib.ListX Lib.PyStr Model.Species Model.Physics.
Import ListNotations.
Open Scope string_scope.

Definition get_count (x : sexp) : option (string * N) :=
  match x with
  | L [A k; v] => match get_nat v with Some n => Some (k, N.of_nat n) | None => None end
  | _ => None
  end.

Definition get_hspec (x : sexp) : option hspec :=
  match x with
  | L [A a; cs; b] =>
      match get_list get_count cs, get_bool b with
      | Some cs, Some b => Some {| h_alias := a; h_counts := cs; h_surface := b |}
      | _, _ => None
      end
  | _ => None
  end.

(* phys.helpers species elements -> per element (text of the return statement, terms), mantle slots *)
Definition handle_physics (cmd : string) (args : list sexp) : option sexp :=
  if String.eqb cmd "phys.helpers" then
    match args with
    | [sp; els] =>
        match get_list get_hspec sp, get_list get_str els with
        | Some sp, Some els =>
            Some (L [L (map (fun el => L [A el; A (elem_text el sp);
                                          L (map (fun t : N * nat => L [A (print_N (fst t)); ns (snd t)]) (elem_terms el sp))]) els);
                     L (map ns (mantle_terms sp))])
        | _, _ => Some (err "bad species")
        end
    | _ => Some (err "bad args")
    end
  else None.
