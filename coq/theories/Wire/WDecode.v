From Coq Require Import List String ZArith Bool Arith.
From Naunet Require Import Lib.Sexp Lib.ListX Lib.PyStr Model.Decode.
From NaunetGen Require Import Tables.
Import ListNotations.
Open Scope string_scope.

Definition rt (name : string) : Z :=
  match assoc_str name reaction_types with Some v => v | None => (-12345)%Z end.

(* the format tables of the current /repo *)
Definition live_tables (pseudo : list string) : ftables :=
  {| ft_kida := kida_formula2type; ft_umist := umist_code2type; ft_leeds := leeds_rtype2type;
     ft_uclchem := uclchem_reactant2type; ft_freeze := rt "GRAIN_FREEZE"; ft_twobody := rt "GAS_TWOBODY";
     ft_unknown := rt "UNKNOWN"; ft_pseudo := pseudo |}.

Definition get_fmt (s : string) : option fmt :=
  if String.eqb s "kida" then Some FKida else if String.eqb s "umist" then Some FUmist
  else if String.eqb s "leeds" then Some FLeeds else if String.eqb s "uclchem" then Some FUclchem
  else if String.eqb s "krome" then Some FKrome else if String.eqb s "naunet" then Some FNative else None.

Definition put_dec (x : derr + dec) : sexp :=
  match x with
  | inl EArity => L [A "err"; A "arity"]
  | inl EIndex => L [A "err"; A "index"]
  | inr d => L [A "ok"; L (map A (d_reac d)); L (map A (d_prod d)); A (d_alpha d); A (d_beta d); A (d_gamma d);
               A (d_tmin d); A (d_tmax d); A (d_idx d); A (d_code d);
               match d_type d with Some t => zs t | None => A "none" end; A (d_source d); A (d_rate d)]
  end.

Definition handle_decode (cmd : string) (args : list sexp) : option sexp :=
  if String.eqb cmd "dec.file" then
    match args with
    | [A f; pseudo; lines] =>
        match get_fmt f, get_list get_str pseudo, get_list get_str lines with
        | Some f, Some pseudo, Some lines => Some (L (map put_dec (read_file (live_tables pseudo) f lines)))
        | _, _, _ => Some (err "bad args")
        end
    | _ => Some (err "bad args")
    end
  else None.
