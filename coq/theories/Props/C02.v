(** C02 — the analytic Jacobian is the exact derivative of the emitted right-hand
    side.  Property theorems only. *)
From Coq Require Import List Arith Bool String Ring.
From Naunet Require Import Lib.ListX Model.OdeGen Proofs.OdeRefine Proofs.OdeSem.
Import ListNotations.

Section AnyRing.
Variable R : Type.
Variables (rO rI : R) (radd rmul rsub : R -> R -> R) (ropp : R -> R).
Hypothesis Rth : ring_theory rO rI radd rmul rsub ropp (@eq R).

(* formal statement over any commutative ring: entry (row, col) evaluates to the
   formal partial derivative (linearity + Leibniz rule, [deqn]/[dprod]) of the
   emitted equation [row] with respect to y[col] — reactions, ODE modifiers with
   any number of (repeated) dependencies, heating and cooling terms alike *)
Theorem jac_formal : forall (E : env R) (i : ode_input) (row col : nat),
  wf_input i -> row < n_eqns i -> col < n_eqns i ->
  ev_eqn R rO rI radd rmul ropp E (jac_entry i row col)
  = deqn R rO rI radd rmul ropp E col (rhs_row i row).
Proof. exact (jac_is_formal_derivative R rO rI radd rmul rsub ropp Rth). Qed.

(* every entry the generator leaves out (the literal 0.0, absent from the CSR
   form) is an identically vanishing derivative *)
Theorem jac_omitted_is_zero : forall (E : env R) (i : ode_input) (row col : nat),
  wf_input i -> row < n_eqns i -> col < n_eqns i ->
  is_zero (jac_entry i row col) = true ->
  deqn R rO rI radd rmul ropp E col (rhs_row i row) = rO.
Proof. exact (jac_omitted_zero R rO rI radd rmul rsub ropp Rth). Qed.

(* the generator's own summand — one copy of the term with one occurrence of
   y[j] removed per occurrence of y[j] — is the Leibniz derivative of the term *)
Theorem removed_occurrence_is_leibniz : forall (E : env R) (j : nat) (t : term),
  muln R rO radd (count Nat.eqb j (t_vars t)) (ev_term R rI rmul ropp E (dterm j t))
  = dterm_val R rO rI radd rmul ropp E j t.
Proof. exact (dterm_emitted R rO rI radd rmul rsub ropp Rth). Qed.
End AnyRing.
Print Assumptions jac_formal.
Print Assumptions jac_omitted_is_zero.
Print Assumptions removed_occurrence_is_leibniz.

(** text level: the text of an emitted Jacobian entry ("0.0" followed by
    " - k[l]*y[IDX_b]" ...), lexed and parsed as C, evaluates to the formal derivative
    of the row - for every network, entry and valuation (entries holding a modifier
    factor, which is arbitrary text, are excluded by the decidable premise) *)
From Naunet Require Import Model.CExpr Model.OdeText Proofs.OdeTextProofs.
Theorem jac_text_is_derivative :
  forall (R : Type) (rO rI : R) (radd rmul rsub : R -> R -> R) (ropp : R -> R),
  ring_theory rO rI radd rmul rsub ropp (@eq R) ->
  forall (E : env R) (i : ode_input) (row col : nat) (ts : list tterm),
  wf_input i -> row < n_eqns i -> col < n_eqns i -> tterms_of (jac_entry i row col) = Some ts ->
  exists e, parse (rhs_txt ts) = Some e /\
            den R rO radd rmul rsub E e = deqn R rO rI radd rmul ropp E col (rhs_row i row).
Proof. intros R rO rI radd rmul rsub ropp Rth. exact (jac_text_lemma R rO rI radd rmul rsub ropp Rth). Qed.
Print Assumptions jac_text_is_derivative.

(* the entries of the temperature row are written wrapped, "(gamma - 1.0) * ( ... ) / kerg / npar", unless
   they are "0.0", their thermal terms with a bare star (unspaced): the wrapped text parses as that wrapping of a sum whose value is the formal
   derivative of the unwrapped temperature row (the wrapped row itself: C01.thermal_text_is_wrapped_difference;
   over the reals the constant factor commutes with the derivative: jac_thermal_row_is_derive below) *)
Theorem jac_thermal_text_is_derivative :
  forall (R : Type) (rO rI : R) (radd rmul rsub : R -> R -> R) (ropp : R -> R),
  ring_theory rO rI radd rmul rsub ropp (@eq R) ->
  forall (E : env R) (i : ode_input) (col : nat) (ts : list tterm),
  wf_input i -> has_thermal i = true -> col < n_eqns i ->
  tterms_of (jac_entry i (i_nspec i) col) = Some ts ->
  exists inner, parse (wrapped_txt (unspaced ts)) = Some (wrap_ex inner) /\
    den R rO radd rmul rsub E inner = deqn R rO rI radd rmul ropp E col (rhs_row i (i_nspec i)).
Proof. intros R rO rI radd rmul rsub ropp Rth. exact (jac_thermal_text_lemma R rO rI radd rmul rsub ropp Rth). Qed.
Print Assumptions jac_thermal_text_is_derivative.

(* entries holding ODE-modifier terms " + (fact)*y[..]": for every factor text that parses on its own, the entry
   parses with the factor as its own expression and its value is the formal derivative of the row
   (see C01.rhs_text_with_modifiers_is_law for the reading) *)
From Naunet Require Import Proofs.ModTextProofs.
Theorem jac_text_with_modifiers_is_derivative :
  forall (R : Type) (rO rI : R) (radd rmul rsub : R -> R -> R) (ropp : R -> R),
  ring_theory rO rI radd rmul rsub ropp (@eq R) ->
  forall (E : env R) (atom : ex -> R) (i : ode_input) (row col : nat) (gs : list gterm),
  atom (ELit zero_lit) = rO ->
  (forall f, e_f R E f = fact_val R rO radd rmul rsub E atom f) ->
  wf_input i -> row < n_eqns i -> col < n_eqns i ->
  gterms_of false (jac_entry i row col) = Some gs -> facts_parse gs = true ->
  exists e, parse (grhs_txt gs) = Some e /\
            denG R rO radd rmul rsub E atom e = deqn R rO rI radd rmul ropp E col (rhs_row i row).
Proof. intros R rO rI radd rmul rsub ropp Rth. exact (jac_mod_text_lemma R rO rI radd rmul rsub ropp Rth). Qed.
Print Assumptions jac_text_with_modifiers_is_derivative.


From Coq Require Import Reals RealField.
From Coquelicot Require Import Coquelicot.
From Naunet Require Import Proofs.OdeReal.
Open Scope R_scope.
(* over the reals the formal derivative is the derivative of analysis: rate
   coefficients, modifier factors and all other abundances held fixed *)
Theorem formal_is_real_derivative : forall (E : env R) (j : nat) (e : eqn),
  is_derive (fun x => ev_eqn R 0 1 Rplus Rmult Ropp (upd E j x) e) (e_y R E j)
            (deqn R 0 1 Rplus Rmult Ropp E j e).
Proof. exact eqn_derive. Qed.
Print Assumptions formal_is_real_derivative.

Theorem jac_is_derive : forall (E : env R) (i : ode_input) (row col : nat),
  wf_input i -> (row < n_eqns i)%nat -> (col < n_eqns i)%nat ->
  is_derive (fun x => ev_eqn R 0 1 Rplus Rmult Ropp (upd E col x) (rhs_row i row)) (e_y R E col)
            (ev_eqn R 0 1 Rplus Rmult Ropp E (jac_entry i row col)).
Proof. exact jac_is_derive_lemma. Qed.
Print Assumptions jac_is_derive.

(* the wrapped temperature row: (gamma-1)/kerg/npar is a constant factor of both *)
Theorem jac_thermal_row_is_derive : forall (E : env R) (i : ode_input) (col : nat) (wrapf : R),
  wf_input i -> has_thermal i = true -> (col < n_eqns i)%nat ->
  is_derive (fun x => wrapf * ev_eqn R 0 1 Rplus Rmult Ropp (upd E col x) (rhs_row i (i_nspec i)))
            (e_y R E col)
            (wrapf * ev_eqn R 0 1 Rplus Rmult Ropp E (jac_entry i (i_nspec i) col)).
Proof. exact jac_thermal_is_derive_lemma. Qed.
Print Assumptions jac_thermal_row_is_derive.

(* non-vacuity: a modifier with three dependencies, two of them repeated *)
Theorem example_modifier_Z : c02_example_statement.
Proof. exact c02_example_proof. Qed.
Print Assumptions example_modifier_Z.
