(** C03 — sparse (CSR), dense and Odeint Jacobian layouts agree, are well-formed
    and in bounds.  Property theorems only. *)
From Coq Require Import List Arith Bool Sorted.
From Naunet Require Import Lib.ListX Model.OdeGen Proofs.OdeRefine Proofs.OdeSem Proofs.CsrProofs.
Import ListNotations.

Section AnyMatrix.
Context {X : Type}.
Variable zero : X -> bool.     (* "is the literal 0.0" *)
Variable dflt : X.

(* row pointers: n+1 of them, start at 0, never decrease, end at the declared NNZ,
   which is the number of stored columns and values *)
Theorem csr_rowptr_wellformed : forall n (jac : list X),
  let c := csr zero dflt n jac in
  List.length (c_rptr c) = S n /\ hd 1 (c_rptr c) = 0 /\ last (c_rptr c) 1 = c_nnz c /\
  StronglySorted le (c_rptr c) /\
  c_nnz c = List.length (c_cols c) /\ c_nnz c = List.length (c_vals c).
Proof. exact (csr_rowptr zero dflt). Qed.

(* the CSR arrays are the concatenation of the per-row entry lists ... *)
Theorem csr_is_rowwise : forall n (jac : list X),
  let re := rows_ent zero dflt n jac (seq 0 n) in
  csr zero dflt n jac
  = {| c_rptr := psums 0 (map (@List.length _) re) ++ [List.length (concat re)];
       c_cols := concat (map (map fst) re);
       c_vals := concat (map (map snd) re);
       c_nnz := List.length (concat re) |}.
Proof. exact (csr_spec zero dflt). Qed.

(* ... whose column indices are strictly increasing and in range *)
Theorem csr_row_columns : forall n (jac : list X) row,
  StronglySorted lt (map fst (row_ent zero dflt n jac row)) /\
  Forall (fun c => c < n) (map fst (row_ent zero dflt n jac row)).
Proof. exact (row_cols_ok zero dflt). Qed.

(* the CSR matrix holds exactly the entries the dense and Odeint variants assign,
   same value at the same (row, column), in the same order *)
Theorem layouts_agree : forall n (jac : list X), List.length jac = n * n ->
  csr_triples (csr zero dflt n jac) = dense_assign zero n jac.
Proof. exact (CsrProofs.layouts_agree zero dflt). Qed.

(* and these are exactly the in-range, non-"0.0" entries of the flat matrix: all
   row and column subscripts are below the declared number of equations *)
Theorem stored_entries_exact : forall n (jac : list X) r c x, List.length jac = n * n ->
  (In (r, c, x) (dense_assign zero n jac) <->
   r < n /\ c < n /\ x = nth (r * n + c) jac dflt /\ zero x = false).
Proof. exact (dense_in zero dflt). Qed.

(* the pattern file marks exactly the stored entries *)
Theorem pattern_exact : forall n (jac : list X) row col,
  List.length jac = n * n -> row < n -> col < n ->
  nth col (nth row (pattern zero n jac) []) true = negb (zero (nth (row * n + col) jac dflt)).
Proof. exact (pattern_spec zero dflt). Qed.
End AnyMatrix.
Print Assumptions csr_rowptr_wellformed.
Print Assumptions csr_is_rowwise.
Print Assumptions csr_row_columns.
Print Assumptions layouts_agree.
Print Assumptions stored_entries_exact.
Print Assumptions pattern_exact.

(* the generated matrix has the declared shape, for every network (including the
   empty one, for which n_eqns = 1 and nothing is stored), and every abundance
   subscript that occurs in any emitted term is a species slot *)
Theorem generated_shape : forall i : ode_input, wf_input i ->
  1 <= n_eqns i /\
  List.length (st_rhs (ode_terms i)) = n_eqns i /\
  List.length (st_jac (ode_terms i)) = n_eqns i * n_eqns i /\
  Forall (fun e => Forall (fun t => Forall (fun v => v < i_nspec i) (t_vars t)) e)
         (st_rhs (ode_terms i) ++ st_jac (ode_terms i)).
Proof. exact generated_shape_lemma. Qed.
Print Assumptions generated_shape.

Theorem empty_network_csr :
  let i := {| i_nspec := 0; i_rxns := []; i_mods := []; i_heat := []; i_cool := [] |} in
  n_eqns i = 1 /\
  csr is_zero [] (n_eqns i) (st_jac (ode_terms i))
  = {| c_rptr := [0; 0]; c_cols := []; c_vals := []; c_nnz := 0 |}.
Proof. exact empty_network_csr_lemma. Qed.
Print Assumptions empty_network_csr.

(* ---- batched (cuSPARSE) arrays: system s keeps slot i of an array with [stride] slots per system at s * stride + i
   (abundances and derivatives: stride NEQUATIONS, Jacobian values: stride NNZ).  Distinct (system, slot) pairs never share an
   element, every element lies inside the n * stride elements of the batch ... *)
From Naunet Require Import Model.Batch Proofs.BatchProofs.
Theorem batch_blocks_disjoint : forall stride s s' i i', i < stride -> i' < stride ->
  block_index stride s i = block_index stride s' i' -> s = s' /\ i = i'.
Proof. exact block_index_injective_lemma. Qed.
Print Assumptions batch_blocks_disjoint.

Theorem batch_subscripts_in_bounds : forall stride n s i, s < n -> i < stride -> block_index stride s i < n * stride.
Proof. exact block_index_in_bounds_lemma. Qed.
Print Assumptions batch_subscripts_in_bounds.

(* ... and a stride smaller than the number of slots (NSPECIES for NEQUATIONS when there is a temperature equation - a seeded change
   of round 22) makes slot 0 of system 1 the very element that holds slot stride' of system 0 *)
Theorem batch_short_stride_refuted : forall stride stride', stride' < stride ->
  block_index stride' 1 0 = block_index stride' 0 stride' /\ stride' < stride.
Proof. exact wrong_stride_aliases_lemma. Qed.
Print Assumptions batch_short_stride_refuted.

(* the flat array of a batch (abundances, derivatives, Jacobian values) is the concatenation of its systems: the element at
   s * stride + i is slot i of system s, and the array has (number of systems) * stride elements *)
Theorem batch_flat_layout : forall (A : Type) (d : A) (stride : nat) (b : list (list A)) (s i : nat),
  Forall (fun sys => List.length sys = stride) b -> s < List.length b -> i < stride ->
  nth (block_index stride s i) (concat b) d = nth i (nth s b []) d.
Proof. exact flat_layout_lemma. Qed.
Print Assumptions batch_flat_layout.

Theorem batch_flat_length : forall (A : Type) (stride : nat) (b : list (list A)),
  Forall (fun sys => List.length sys = stride) b -> List.length (concat b) = List.length b * stride.
Proof. exact flat_length_lemma. Qed.
Print Assumptions batch_flat_length.
