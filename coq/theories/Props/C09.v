(** C09 — One index per species: identifiers valid, unique and consistent.
    Property theorems only. *)
From Coq Require Import List Arith Bool String Ascii ZArith NArith Permutation Sorted.
From Naunet Require Import Lib.ListX Lib.PyStr Model.Species Model.Index Proofs.SpeciesProofs Proofs.IndexProofs.
From NaunetGen Require Import Tables.
Import ListNotations.
Open Scope string_scope.

(* the ordered species list is a rearrangement of the species set: nothing is
   dropped, nothing appears twice *)
Theorem species_order_perm : forall sp rs, Permutation (species_order sp rs) sp.
Proof. exact species_order_perm_lemma. Qed.
Print Assumptions species_order_perm.

Theorem species_order_nodup : forall sp rs, NoDup sp -> NoDup (species_order sp rs).
Proof. exact species_order_nodup_lemma. Qed.
Print Assumptions species_order_nodup.

(* ordered by number of connected species, then by name *)
Theorem species_order_sorted : forall sp rs,
  StronglySorted (fun a b => key_leb (degree rs a, a) (degree rs b, b) = true) (species_order sp rs).
Proof. exact species_order_sorted_lemma. Qed.
Print Assumptions species_order_sorted.

(* ... and independent of the iteration order of the underlying (hash) set *)
Theorem species_order_canonical : forall sp sp' rs, Permutation sp sp' ->
  species_order sp rs = species_order sp' rs.
Proof. exact species_order_canonical_lemma. Qed.
Print Assumptions species_order_canonical.

(* the index macros map the species one-to-one onto 0 .. NSPECIES-1 *)
Theorem idx_bijection : forall sp rs, NoDup sp ->
  let l := species_order sp rs in
  List.length l = List.length sp /\
  (forall x, In x sp -> exists i, idx_of l x = Some i /\ i < List.length l) /\
  (forall i, i < List.length l -> exists x, In x sp /\ idx_of l x = Some i) /\
  (forall x y i, idx_of l x = Some i -> idx_of l y = Some i -> x = y).
Proof.
  intros sp rs Hd l. pose proof (species_order_perm_lemma sp rs) as P.
  destruct (idx_bijection_lemma l (species_order_nodup_lemma sp rs Hd)) as (H1 & H2 & H3).
  split. apply Permutation_length; exact P. split; [|split].
  - intros x Hx. apply H1. eapply Permutation_in; [apply Permutation_sym; exact P | exact Hx].
  - intros i Hi. destruct (H2 i Hi) as (x & Hx & Hi'). exists x. split; auto.
    eapply Permutation_in; [exact P | exact Hx].
  - exact H3.
Qed.
Print Assumptions idx_bijection.

(* the symbol table of the current /repo *)
Definition symtab : list string := map fst element_massnumber.

(* every generated identifier is a legal C / Python identifier whenever the
   basename (name without surface prefix and charges) is alphanumeric *)
Theorem alias_legal : forall T s, ident_str (basename s) ->
  c_ident ("IDX_" ++ alias T symtab s) = true.
Proof.
  intros T s H. apply alias_legal_lemma; auto.
  apply Forall_forall. intros x Hx.
  assert (forallb (fun y => forallb is_ident_char (chars y)) symtab = true) as Hall by (vm_compute; reflexivity).
  rewrite forallb_forall in Hall. exact (Hall x Hx).
Qed.
Print Assumptions alias_legal.

(* the identifier determines phase, (case-normalised) basename and charge *)
Theorem alias_shape : forall T s,
  alias T symtab s = alias_of (is_surface s) (norm_basename T symtab s) (charge s).
Proof. intros T s. exact (alias_shape_lemma T symtab s). Qed.
Print Assumptions alias_shape.

Theorem alias_injective : forall s1 b1 c1 s2 b2 c2,
  alias_safe s1 b1 = true -> alias_safe s2 b2 = true ->
  alias_of s1 b1 c1 = alias_of s2 b2 c2 -> s1 = s2 /\ b1 = b2 /\ c1 = c2.
Proof. exact alias_injective_lemma. Qed.
Print Assumptions alias_injective.

(** on the live default tables *)
Definition T0 := {| t_elements := default_elements; t_pseudo := default_pseudoelements; t_replacement := [] |}.
Definition Y0 := {| y_grain := "GRAIN"; y_surface := "#" |}.
Definition alias0 (name : string) : string :=
  match parse_species T0 Y0 name with inr s => alias T0 symtab s | inl _ => "?" end.
Definition eq0 (a b : string) : bool :=
  match parse_species T0 Y0 a, parse_species T0 Y0 b with inr x, inr y => sp_eqb x y | _, _ => false end.
Definition hk0 (a : string) : string :=
  match parse_species T0 Y0 a with inr x => hash_key x | _ => "?" end.

(* non-vacuity: two spellings of the electron are one species with one hash key *)
Theorem spellings_one_slot :
  eq0 "e-" "E" = true /\ hk0 "e-" = hk0 "E" /\
  alias0 "H2O" = "H2OI" /\ alias0 "#CO" = "GCOI" /\ alias0 "HCO+" = "HCOII" /\ alias0 "H-" = "HM" /\
  c_ident ("IDX_" ++ alias0 "Si++++") = true.
Proof. vm_compute. repeat split; reflexivity. Qed.
Print Assumptions spellings_one_slot.

(* known findings *)
Theorem label_alias_illegal_refuted :
  c_ident ("IDX_" ++ alias0 "c-C3H2") = false /\ c_ident ("IDX_" ++ alias0 "H2*") = false.
Proof. vm_compute. split; reflexivity. Qed.
Print Assumptions label_alias_illegal_refuted.

Theorem grain_eq_hash_refuted : eq0 "GRAIN" "GRAIN0" = true /\ hk0 "GRAIN" <> hk0 "GRAIN0".
Proof. vm_compute. split; [reflexivity | discriminate]. Qed.
Print Assumptions grain_eq_hash_refuted.

Theorem surface_group_alias_refuted : eq0 "#1CO" "#2CO" = false /\ alias0 "#1CO" = alias0 "#2CO".
Proof. vm_compute. split; reflexivity. Qed.
Print Assumptions surface_group_alias_refuted.
