(** C07 — Reaction files of all six formats are decoded faithfully.
    Property theorems only. *)
From Coq Require Import List Arith Bool String Ascii ZArith.
From Naunet Require Import Lib.ListX Lib.PyStr Model.Decode Proofs.DecodeProofs Wire.WDecode.
From NaunetGen Require Import Tables.
Import ListNotations.
Open Scope string_scope.

(* marker tokens never become species: whatever the format and the line, every
   decoded reactant / product is a non-empty name outside the pseudo-element list *)
Theorem markers_filtered : forall F f st line st' d,
  factory F f st line = (st', Some (inr d)) ->
  Forall (real_name (ft_pseudo F)) (d_reac d) /\ Forall (real_name (ft_pseudo F)) (d_prod d).
Proof. exact decode_names_lemma. Qed.
Print Assumptions markers_filtered.

(* ... and every other name survives, in order, with multiplicity *)
Theorem real_names_kept : forall pseudo l, Forall (real_name pseudo) l -> species_names pseudo l = l.
Proof. exact species_names_all_real. Qed.
Print Assumptions real_names_kept.

(* blank lines add no reaction, in any format *)
Theorem blank_lines_add_none : forall F f st line, strip line = "" -> snd (factory F f st line) = None.
Proof. exact blank_none_lemma. Qed.
Print Assumptions blank_lines_add_none.

(* KROME comment and directive lines add none *)
Theorem krome_comment_directive_add_none : forall F st line,
  sstarts "#" line = true \/ sstarts "//" line = true \/ sstarts "@format:" line = true \/
  sstarts "@var" line = true \/ sstarts "@common:" line = true ->
  snd (factory F FKrome st line) = None.
Proof. exact krome_nondata_none_lemma. Qed.
Print Assumptions krome_comment_directive_add_none.

(* one reaction per data line, in file order *)
Theorem file_order : forall F f, f <> FKrome -> forall lines,
  read_file F f lines = flat_map (line_result F f) lines.
Proof. intros F f Hf lines. exact (read_lines_stateless F f Hf lines kstate0). Qed.
Print Assumptions file_order.

(** round trips: a well-formed line decodes to exactly the fields it was written from *)
Theorem umist_roundtrip : forall tbl pseudo idx code r1 r2 p1 p2 p3 p4 ne a b c lt ut extra ws,
  Forall (nosep ":"%char) ([idx; code; r1; r2; p1; p2; p3; p4; ne; a; b; c; lt; ut] ++ extra) ->
  edge_ok (chars (encode_umist idx code r1 r2 p1 p2 p3 p4 ne a b c lt ut extra)) = true ->
  forallb is_space (chars ws) = true ->
  decode_umist tbl pseudo (encode_umist idx code r1 r2 p1 p2 p3 p4 ne a b c lt ut extra ++ ws) =
  inr {| d_reac := species_names pseudo [r1; r2]; d_prod := species_names pseudo [p1; p2; p3; p4];
         d_alpha := a; d_beta := b; d_gamma := c; d_tmin := lt; d_tmax := ut; d_idx := idx;
         d_code := code; d_type := assoc_str code tbl; d_source := "umist"; d_rate := "" |}.
Proof. exact umist_roundtrip_lemma. Qed.
Print Assumptions umist_roundtrip.

Theorem native_roundtrip : forall pseudo idx r1 r2 r3 p1 p2 p3 p4 p5 k1 k2 k3 k4 k5 k6 k7 k8 a b c lt ut rtype source,
  Forall (nosep ","%char)
    [idx; pad k1 r1; pad k2 r2; pad k3 r3; pad k4 p1; pad k5 p2; pad k6 p3; pad k7 p4; pad k8 p5; a; b; c; lt; ut; rtype; source] ->
  Forall field_ok [r1; r2; r3; p1; p2; p3; p4; p5] ->
  decode_native pseudo
    (encode_native idx (pad k1 r1) (pad k2 r2) (pad k3 r3) (pad k4 p1) (pad k5 p2) (pad k6 p3) (pad k7 p4) (pad k8 p5)
                   a b c lt ut rtype source) =
  inr {| d_reac := species_names pseudo [r1; r2; r3]; d_prod := species_names pseudo [p1; p2; p3; p4; p5];
         d_alpha := a; d_beta := b; d_gamma := c; d_tmin := lt; d_tmax := ut; d_idx := idx;
         d_code := rtype; d_type := small_int rtype; d_source := strip source; d_rate := "" |}.
Proof. exact native_roundtrip_lemma. Qed.
Print Assumptions native_roundtrip.

Theorem uclchem_roundtrip : forall tbl freeze ma pseudo r1 m r3 p1 p2 p3 p4 a b c lt ut,
  Forall (nosep ","%char) [r1; m; r3; p1; p2; p3; p4; a; b; c; lt; ut] ->
  let ty := match assoc_str m tbl with Some t => t | None => ma end in
  let kw := (map fst tbl ++ ["NAN"])%list in
  let notkw := fun x => negb (memb String.eqb x kw) in
  decode_uclchem tbl freeze ma pseudo (encode_uclchem r1 m r3 p1 p2 p3 p4 a b c lt ut) =
  inr {| d_reac := species_names pseudo (filter notkw [r1; m; r3]);
         d_prod := species_names pseudo (filter notkw [p1; p2; p3; p4]);
         d_alpha := a; d_beta := b; d_gamma := c;
         d_tmin := if Z.eqb ty freeze then "0" else lt;
         d_tmax := if Z.eqb ty freeze then "30" else ut;
         d_idx := "-1"; d_code := m; d_type := Some ty; d_source := "uclchem"; d_rate := "" |}.
Proof. exact uclchem_roundtrip_lemma. Qed.
Print Assumptions uclchem_roundtrip.

Theorem leeds_roundtrip : forall tbl pseudo idx rws kr pws kp a b c lt ht ty,
  List.length idx = 5 -> List.length (block rws kr) = 30 -> List.length (block pws kp) = 50 ->
  List.length a = 8 -> List.length b = 9 -> List.length c = 10 -> List.length lt = 5 -> List.length ht = 5 ->
  List.length ty = 3 ->
  Forall (fun wp => word_ok (fst wp)) rws -> Forall (fun wp => word_ok (fst wp)) pws ->
  let yc := fun n => replace "YC" "CH2OHC" n in
  decode_leeds tbl pseudo (str (List.concat [idx; block rws kr; block pws kp; a; b; c; lt; ht; ty])) =
  inr {| d_reac := species_names pseudo (map yc (map (fun wp => str (fst wp)) rws));
         d_prod := species_names pseudo (map yc (map (fun wp => str (fst wp)) pws));
         d_alpha := str a; d_beta := str b; d_gamma := str c; d_tmin := str lt; d_tmax := str ht;
         d_idx := str idx; d_code := str (skipn 1 ty);
         d_type := match small_int (str (skipn 1 ty)) with Some t => assoc_Z t tbl | None => None end;
         d_source := "leeds"; d_rate := "" |}.
Proof. exact leeds_roundtrip_lemma. Qed.
Print Assumptions leeds_roundtrip.

Theorem kida_roundtrip : forall tbl pseudo rws kr pws kp
      a b c x1 x2 x3 itype lt ut form idx y1 y2 q1 q2 q3 q4 q5 q6 q7 q8 q9 q10 q11 q12 ws,
  List.length (block rws kr) = 34 -> List.length (block pws kp) = 56 ->
  Forall (fun wp => word_ok (fst wp)) rws -> Forall (fun wp => word_ok (fst wp)) pws ->
  Forall word_ok [a; b; c; x1; x2; x3; itype; lt; ut; form; idx; y1; y2] ->
  let tail := (block [(a, q1); (b, q2); (c, q3); (x1, q4); (x2, q5); (x3, q6); (itype, q7); (lt, q8); (ut, q9);
                      (form, q10); (idx, q11); (y1, q12)] 0 ++ y2)%list in
  let L := List.concat [block rws kr; block pws kp; tail] in
  edge_ok L = true -> forallb is_space ws = true ->
  decode_kida tbl pseudo (str (L ++ ws)) =
  inr {| d_reac := species_names pseudo (map (fun wp => str (fst wp)) rws);
         d_prod := species_names pseudo (map (fun wp => str (fst wp)) pws);
         d_alpha := str a; d_beta := str b; d_gamma := str c; d_tmin := str lt; d_tmax := str ut; d_idx := str idx;
         d_code := str form;
         d_type := assoc_Z (match small_int (str form) with
                            | Some f => if (Z.leb 1 f && Z.leb f 6)%bool then f else 3%Z
                            | None => 3%Z end) tbl;
         d_source := "kida"; d_rate := "" |}.
Proof. exact kida_roundtrip_lemma. Qed.
Print Assumptions kida_roundtrip.

Theorem krome_species : forall unknown pseudo fmtline vals ws,
  vals <> [] -> Forall (nosep ","%char) vals ->
  edge_ok (chars (join ","%char vals)) = true -> forallb is_space (chars ws) = true ->
  exists d, decode_krome unknown pseudo fmtline (join ","%char vals ++ ws) = inr d /\
    let kv := combine (split_on ","%char (strip (lower fmtline))) vals in
    d_reac d = species_names pseudo (vals_of "r" kv) /\
    d_prod d = species_names pseudo (vals_of "p" kv).
Proof. exact krome_decode_lemma. Qed.
Print Assumptions krome_species.

(** the format-code tables of the current /repo (regenerated on every run): every code the
    decoders can return is a member of the ReactionType enum, and the documented codes map
    to the documented types *)
Definition type_names (l : list Z) : list (option string) :=
  map (fun v => option_map fst (find (fun p : string * Z => Z.eqb (snd p) v) reaction_types)) l.

Theorem code_tables :
  type_names (map snd kida_formula2type) =
    map Some ["GAS_COSMICRAY"; "GAS_PHOTON"; "GAS_TWOBODY"; "GAS_KIDA_IP1"; "GAS_KIDA_IP2"; "GAS_THREEBODY"] /\
  map fst kida_formula2type = [1; 2; 3; 4; 5; 6]%Z /\
  map (fun c => option_map fst (find (fun p : string * Z => Z.eqb (snd p)
          (match assoc_str c umist_code2type with Some t => t | None => 0%Z end)) reaction_types))
      ["CP"; "CR"; "PH"; "NN"; "IN"; "DR"; "RA"] =
    map Some ["GAS_COSMICRAY"; "GAS_UMIST_CRPHOT"; "GAS_PHOTON"; "GAS_TWOBODY"; "GAS_TWOBODY"; "GAS_TWOBODY"; "GAS_TWOBODY"] /\
  type_names (map snd leeds_rtype2type) =
    map Some ["GAS_TWOBODY"; "GAS_COSMICRAY"; "GAS_UMIST_CRPHOT"; "GAS_PHOTON"; "GAS_XRAY"; "GRAIN_RECOMINE"; "GRAIN_FREEZE";
              "GRAIN_DESORB_THERMAL"; "GRAIN_DESORB_COSMICRAY"; "GRAIN_DESORB_PHOTON"; "SURFACE_COSMICRAY"; "SURFACE_PHOTON";
              "SURFACE_TWOBODY"; "GRAIN_DESORB_REACTIVE"; "GRAIN_ECAPTURE"] /\
  map fst leeds_rtype2type = [1; 2; 3; 4; 5; 6; 7; 8; 9; 10; 11; 12; 13; 14; 20]%Z /\
  map (fun p : string * Z => (fst p, option_map fst (find (fun q : string * Z => Z.eqb (snd q) (snd p)) reaction_types)))
      uclchem_reactant2type =
    [("CRP", Some "GAS_COSMICRAY"); ("PHOTON", Some "GAS_PHOTON"); ("CRPHOT", Some "GAS_UMIST_CRPHOT");
     ("FREEZE", Some "GRAIN_FREEZE"); ("DESOH2", Some "GRAIN_DESORB_H2"); ("DESCR", Some "GRAIN_DESORB_COSMICRAY");
     ("DEUVCR", Some "GRAIN_DESORB_PHOTON"); ("THERM", Some "GRAIN_DESORB_THERMAL"); ("DIFF", Some "SURFACE_DIFFUSION");
     ("CHEMDES", Some "GRAIN_DESORB_REACTIVE")] /\
  forallb (fun m => memb String.eqb m default_pseudoelements) ["CR"; "CRP"; "PHOTON"; "CRPHOT"; "Photon"; "XRAY"] = true.
Proof. vm_compute. repeat split; reflexivity. Qed.
Print Assumptions code_tables.

(* non-vacuity: a concrete UMIST line of the bundled network meets the hypotheses and decodes *)
Theorem umist_example :
  let line := "5173:NN:C:CH:C2:H:::1:6.59e-11:0.00:0.0:10:300:L:C:""10.1111/j.1365-2966.2004.07656.x""::" in
  line = encode_umist "5173" "NN" "C" "CH" "C2" "H" "" "" "1" "6.59e-11" "0.00" "0.0" "10" "300"
                      ["L"; "C"; """10.1111/j.1365-2966.2004.07656.x"""; ""; ""] /\
  edge_ok (chars line) = true /\
  option_map (fun d => (d_reac d, d_prod d, d_type d))
    (match snd (factory (live_tables default_pseudoelements) FUmist kstate0 (line ++ "
")) with Some (inr d) => Some d | _ => None end) = Some (["C"; "CH"], ["C2"; "H"], Some 100%Z).
Proof. vm_compute. repeat split; reflexivity. Qed.
Print Assumptions umist_example.

(* tie to the current /repo (read from the source with ast on every run): the fixed-column layouts the KIDA and Leeds readers
   slice a line with are the column bounds the model's decoders use (reactants 0..34, products 34..90, tail from 90; the Leeds
   fields idx / reac / prod / a / b / c / lt / ht / type end at 5 35 85 93 102 112 117 122 125) *)
Theorem live_layouts :
  (kida_rlen, kida_rlen + kida_plen) = (34, 90) /\
  leeds_labels = ["idx"; "reac"; "prod"; "a"; "b"; "c"; "lt"; "ht"; "type"] /\
  snd (fold_left (fun (acc : nat * list nat) w => (fst acc + w, (snd acc ++ [fst acc + w])%list)) leeds_widths (0, @nil nat)) = [5; 35; 85; 93; 102; 112; 117; 122; 125].
Proof. repeat split; reflexivity. Qed.
Print Assumptions live_layouts.
