(** C13 — rate and ODE modifiers change exactly what the user targeted.
    Property theorems only. *)
From Coq Require Import List Arith Bool String ZArith Ring.
From Naunet Require Import Lib.ListX Model.OdeGen Model.Rates Proofs.OdeRefine Proofs.OdeSem Proofs.RatesProofs.
Import ListNotations.

(* an ODE modifier leaves every other equation untouched and appends, to the target
   equation only, its terms (factor, dependency list with multiplicity) *)
Theorem ode_mod_only_target : forall (i : ode_input) (row : nat), wf_input i ->
  rhs_row i row = rhs_row (without_mods i) row ++ at_pos row (mods_adds (i_mods i)).
Proof. exact ode_mod_exact. Qed.
Print Assumptions ode_mod_only_target.

Section AnyRing.
Variable R : Type.
Variables (rO rI : R) (radd rmul rsub : R -> R -> R) (ropp : R -> R).
Hypothesis Rth : ring_theory rO rI radd rmul rsub ropp (@eq R).
(* value of what is appended: for each modifier targeting the species, the sum of
   factor * product of the listed abundances; nothing for any other species *)
Theorem ode_mod_value : forall (E : env R) (s : nat) (m : omod) (ms : list omod),
  mod_sum R rO rI radd rmul ropp E s (m :: ms)
  = radd (if Nat.eqb (m_target m) s
          then modterms_val R rO rI radd rmul E (m_terms m) else rO)
         (mod_sum R rO rI radd rmul ropp E s ms).
Proof. exact (mod_sum_cons R rO rI radd rmul rsub ropp Rth). Qed.
End AnyRing.
Print Assumptions ode_mod_value.

(* a rate modifier keyed by a reaction index replaces the assignment of precisely
   the reactions carrying that index (the last matching key wins, as in the loop)
   and of no other *)
Theorem rate_mod_exact : forall (mods : list (Z * string)) (idxs : list Z) (eqns : list rate_stmt) (pos : nat),
  List.length idxs = List.length eqns ->
  nth_error (apply_rate_mods mods idxs eqns) pos
  = match nth_error eqns pos, nth_error idxs pos with
    | Some e, Some ix =>
        Some (match last_match ix mods with
              | Some v => {| rs_guard := NoGuard; rs_index := pos; rs_expr := v |}
              | None => e
              end)
    | _, _ => None
    end.
Proof. exact rate_mod_exact_lemma. Qed.
Print Assumptions rate_mod_exact.

(* rendering re-indexes only a network in which no reaction has an index *)
Theorem reindex_only_when_unindexed : forall idxs : list Z,
  render_indices idxs = if forallb (Z.eqb (-1)) idxs then map Z.of_nat (seq 0 (List.length idxs)) else idxs.
Proof. exact render_indices_spec. Qed.
Print Assumptions reindex_only_when_unindexed.

(** "both survive the path through the project configuration file": what
    `naunet init` stores for --rate-modifier / --ode-modifier is what was written
    (model of InitCommand in Model/Config; the configuration file itself is
    written and read by tomlkit, exercised by the harness) *)
From Coq Require Import Ascii.
From Naunet Require Import Lib.PyStr Model.Config Proofs.DecodeProofs Proofs.ConfigProofs.
Open Scope string_scope.

Theorem rate_modifiers_survive_init : forall l,
  Forall (entry_ok ":"%char true) l -> keys_fresh l ->
  parse_rate_mods (map (kv ":") l) = Some l.
Proof. exact parse_rate_mods_kv. Qed.
Print Assumptions rate_modifiers_survive_init.

Theorem ode_modifier_survives_init : forall key fact deps,
  nosep ":"%char key -> nosep ":"%char fact -> nosep ","%char fact ->
  Forall (fun d => word_ok (chars d) /\ nosep ":"%char d /\ nosep ","%char d /\ nosep "["%char d /\ nosep "]"%char d) deps ->
  deps <> [] ->
  parse_om_item (key ++ ":" ++ fact ++ ",[" ++ join " "%char deps ++ "]")%string =
  option_map (fun ds => (key, fact, ds))
             (Some (split_ws (strip (replace "]" "" (replace "[" "" ("[" ++ join " "%char deps ++ "]")%string))))).
Proof. exact parse_om_item_lemma. Qed.
Print Assumptions ode_modifier_survives_init.

(* non-vacuity, and the value that does not survive (recorded under C20) *)
Theorem modifiers_init_examples :
  parse_rate_mods ["3:1.0e-10 * zeta"; "7 : 0.0"]%string = Some [("3", "1.0e-10 * zeta"); ("7", "0.0")]%string /\
  parse_om_item "H2:-2.0 * k[0],[H H]"%string = Some ("H2", "-2.0 * k[0]", ["H"; "H"])%string.
Proof. vm_compute. split; reflexivity. Qed.
Print Assumptions modifiers_init_examples.

(** the emitted text of a modifier term: whatever the factor is - as long as it parses on its own as a C
    expression - the row text parses with the factor kept together as one operand (the parentheses written
    around it isolate it from the neighbouring operators), for ALL rows and ALL factor texts *)
From Naunet Require Import Model.CExpr Model.OdeText Proofs.ModTextProofs.
Theorem modifier_factor_stays_one_operand : forall gs : list gterm,
  facts_parse gs = true -> parse (grhs_txt gs) = Some (gsum_ex zero_lit (map to_gs gs)).
Proof. exact parse_grhs. Qed.
Print Assumptions modifier_factor_stays_one_operand.

(* the two generic facts it rests on: an expression that parses on its own parses identically, with any larger
   fuel, in front of a closing parenthesis; and "(" text ")" lexes to "(", the tokens of the text, ")" *)
From Naunet Require Import Proofs.ParserFrame Proofs.LexerFrame.
Theorem parser_frame : forall n ts e r m k,
  pcond n ts = Some (e, r) -> n <= m ->
  pcond m (ts ++ TOp ")"%char :: k)%list = Some (e, (r ++ TOp ")"%char :: k)%list).
Proof. exact pcond_frame. Qed.
Print Assumptions parser_frame.
Theorem lexer_frame : forall fact rest acc,
  lex_go 0 [] (C "("%char :: fact ++ C ")"%char :: rest)%list acc =
  lex_go 0 [] rest (TOp ")"%char :: rev (lex fact) ++ TOp "("%char :: acc)%list.
Proof. exact lex_paren. Qed.
Print Assumptions lexer_frame.
