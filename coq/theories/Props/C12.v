(** C12 — KROME rate expressions keep their value when translated from Fortran to C.
    Property theorems only.  Which parse tree Lark returns for a source text is observed, not
    modelled; what is proved is a VALIDATOR that is applied to every tree the implementation
    produces: if it accepts, the C output has the value of the Fortran source under every
    interpretation of literals, identifiers, abundances, intrinsic functions and exponentiation. *)
From Coq Require Import List Arith Bool String Ascii Reals.
From Naunet Require Import Lib.ListX Lib.PyStr Model.CExpr Model.Krome Proofs.KromeProofs.
From NaunetGen Require Import Tables.
Import ListNotations.

(* soundness of the validator *)
Theorem validate_sound : forall t, validate t = true ->
  exists f c, parse_fortran (yield_f t) = Some f /\ parse_c (to_c t) = Some c /\
    forall litv var ab fn powf, denoteN litv var ab fn powf f = denoteN litv var ab fn powf c.
Proof. exact validate_sound_lemma. Qed.
Print Assumptions validate_sound.

(* its two ingredients: moving signs to the top of products and quotients keeps the value, and
   agreement of the normal forms means equal values *)
Theorem sign_normalisation_sound : forall litv var ab fn powf e,
  denoteN litv var ab fn powf (float_neg e) = denoteN litv var ab fn powf e.
Proof. exact float_neg_sound. Qed.
Print Assumptions sign_normalisation_sound.

Theorem agree_sound : forall litv var ab fn powf f c, agree f c = true ->
  denoteN litv var ab fn powf f = denoteN litv var ab fn powf c.
Proof. exact agree_sound_lemma. Qed.
Print Assumptions agree_sound.

(* non-vacuity and the known findings, on the trees Lark returns for four sources:
   a rate of the bundled network is accepted; a**b**c is translated left-associatively;
   the sign of a literal base is pulled into the power; n(idx_H2) is not resolved to IDX_H2I *)
Theorem examples :
  to_c t_pow3 = "pow(pow(a, b), c)"%string /\ validate t_pow3 = false /\
  to_c t_signed_base = "pow(-1.0e0, 2)"%string /\ validate t_signed_base = false /\
  to_c t_idx = "y[IDX_H2]"%string /\ validate t_idx = false /\
  to_c t_good = "4.67e-10 * pow((T32), (-5.0e-01)) * exp(-3.04e+04 * invT)"%string /\ validate t_good = true.
Proof. exact examples_lemma. Qed.
Print Assumptions examples.

(* a**b**c: Fortran reads a**(b**c), the emitted C computes (a**b)**c: 512 against 64 at a=2, b=3, c=2 *)
Theorem pow_assoc_refuted :
  exists f c, parse_fortran (yield_f t_pow3) = Some f /\ parse_c (to_c t_pow3) = Some c /\
    denoteN (fun _ => 0%R) val (fun _ => 0%R) (fun _ _ => 0%R) pw f = 512%R /\
    denoteN (fun _ => 0%R) val (fun _ => 0%R) (fun _ _ => 0%R) pw c = 64%R.
Proof. exact pow_assoc_refuted_lemma. Qed.
Print Assumptions pow_assoc_refuted.

(* tie to the current /repo (probe regenerated on every run): the expression
   grammar does not read 'Te+2.5' as one identifier (Te+2.5**2*T32-1.0) *)
Theorem live_grammar_identifier_unsigned : krome_identifier_unsigned = true.
Proof. reflexivity. Qed.
Print Assumptions live_grammar_identifier_unsigned.
