(** C06 — a reaction acts only inside its declared temperature window.
    Property theorems only. *)
From Coq Require Import List Arith Bool String ZArith QArith.
From Naunet Require Import Lib.ListX Model.Rates Proofs.RatesProofs.
From NaunetGen Require Import Tables.
Import ListNotations.
Close Scope Q_scope.

(* the generated assignment for reaction [pos] has the guard of its window ... *)
Theorem assignment_shape : forall (rs : list rate_src) (pos : nat),
  nth_error (assign_rates rs) pos
  = option_map (fun r => {| rs_guard := mk_guard (r_tmin r) (r_tmax r); rs_index := pos;
                            rs_expr := r_expr r |})
               (nth_error rs pos).
Proof. exact assign_rates_nth. Qed.
Print Assumptions assignment_shape.

(* ... and, k[] being initialised to 0, evaluates to the rate expression iff
   Tmin <= T < Tmax, a bound <= 0 meaning "unbounded"; outside it is exactly 0 *)
Theorem guard_sem : forall (tmin tmax T v : Q) (pos : nat) (e : string),
  stmt_value {| rs_guard := mk_guard tmin tmax; rs_index := pos; rs_expr := e |} T v
  = if active tmin tmax T then v else 0%Q.
Proof. exact guard_sem_full. Qed.
Print Assumptions guard_sem.

Theorem no_window_always_active : forall tmin tmax T : Q,
  (tmin <= 0)%Q -> (tmax <= 0)%Q -> active tmin tmax T = true.
Proof. exact no_window_lemma. Qed.
Print Assumptions no_window_always_active.

Theorem window_is_half_open : forall a b T : Q, (0 < a)%Q -> (0 < b)%Q ->
  (active a b T = true <-> (a <= T /\ T < b)%Q).
Proof. exact active_pos. Qed.
Print Assumptions window_is_half_open.

(* several reactions splitting the axis at positive boundaries b0 < b1 < ... < bn:
   at every temperature of [b0, bn), boundaries included, exactly one is active *)
Theorem partition : forall (bs : list Q) (T b0 bn : Q),
  increasing bs -> Forall (fun b => 0 < b)%Q bs ->
  hd_error bs = Some b0 -> last bs 0%Q = bn -> 2 <= List.length bs ->
  (b0 <= T)%Q -> (T < bn)%Q ->
  exists i, window_active bs i T /\ forall j, window_active bs j T -> j = i.
Proof. exact partition_lemma. Qed.
Print Assumptions partition.

(* a rate modifier drops the guard of the reaction it overwrites (the user's
   expression is used at every temperature) *)
Theorem modifier_drops_guard : forall mods pos ix e v,
  last_match ix mods = Some v ->
  overwrite_one mods pos ix e = {| rs_guard := NoGuard; rs_index := pos; rs_expr := v |}.
Proof. exact overwrite_drops_guard. Qed.
Print Assumptions modifier_drops_guard.

(* non-vacuity *)
(* the rendered routine may nest the two comparisons instead of joining them with &&: an assignment under
   any nesting of guards without else branches has the value of the expression exactly when every guard holds,
   and 0 otherwise; in particular "if (T>=a) { if (T<b) { k[i] = e; } }" is the statement with the window [a, b) *)
Theorem nested_guards_are_their_conjunction : forall (s : nstmt) (T v : Q),
  nstmt_value s T v = if forallb (fun g => guard_holds g T) (nstmt_guards s) then v else 0%Q.
Proof. exact nested_value_lemma. Qed.
Print Assumptions nested_guards_are_their_conjunction.

Theorem nested_window_is_the_window : forall (a b T v : Q) (i : nat) (e : string),
  nstmt_value (NIf (Lower a) (NIf (Upper b) (NAssign i e))) T v
  = stmt_value {| rs_guard := Both a b; rs_index := i; rs_expr := e |} T v.
Proof. exact nested_both_lemma. Qed.
Print Assumptions nested_window_is_the_window.

Theorem example_windows : c06_example_statement.
Proof. exact c06_example_proof. Qed.
Print Assumptions example_windows.

(* tie to the current /repo (read from the source with ast on every run): the guard is written "Tgas>=" lower, "Tgas<" upper,
   a bound takes part only when it is > 0, and the guarded assignment is  if (...) { k[i] = expr; }  -  the reading of
   Model.Rates (Lower: Tgas>=tmin, Upper: Tgas<tmax, mk_guard on Qpos_b) *)
Open Scope string_scope.
Theorem live_guard_text :
  assign_rates_pieces = ["Tgas>={}"; "Tgas<{}"; "if ({}) {"; "{}[{}] = {};"; "}"; "{}[{}] = {};"] /\
  assign_rates_tests = ["r.temp_min > 0"; "r.temp_max > 0"].
Proof. split; reflexivity. Qed.
Print Assumptions live_guard_text.
