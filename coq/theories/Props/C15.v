(** C15 — Duplicate detection reports exactly the repeated reactions.
    Property theorems only; every proof is [exact <lemma>]. *)
From Coq Require Import List Arith Bool Sorted Permutation String ZArith.
From Naunet Require Import Lib.ListX Model.Dup Proofs.DupProofs Proofs.DupHash.
From NaunetGen Require Import Tables.
Import ListNotations.

Definition equivalence {K} (e : K -> K -> bool) : Prop :=
  (forall x, e x x = true) /\ (forall x y, e x y = e y x) /\
  (forall x y z, e x y = true -> e y z = true -> e x z = true).

(* the three formatted/brief modes compare by an equivalence relation *)
Theorem mode_equivalence :
  equivalence brief_eqb /\ equivalence minimal_eqb /\ equivalence short_eqb.
Proof. exact mode_equivalence_lemma. Qed.
Print Assumptions mode_equivalence.

(* reported index i  <->  reaction i is equivalent to an earlier reaction *)
Theorem dup_spec : forall K (e : K -> K -> bool), equivalence e -> forall ks i,
  In i (fst (find_dup e ks)) <->
  exists x, nth_error ks i = Some x /\
            exists j y, j < i /\ nth_error ks j = Some y /\ e x y = true.
Proof. exact (@dup_spec_thm). Qed.
Print Assumptions dup_spec.

(* ... listed in order *)
Theorem dup_sorted : forall K (e : K -> K -> bool), equivalence e -> forall ks,
  StronglySorted lt (fst (find_dup e ks)).
Proof. exact (@dup_sorted_thm). Qed.
Print Assumptions dup_sorted.

(* "first" = the first member of every class with at least two members *)
Theorem first_spec : forall K (e : K -> K -> bool), equivalence e -> forall ks i,
  In i (snd (find_dup e ks)) <->
  exists x, nth_error ks i = Some x /\
    (forall j y, j < i -> nth_error ks j = Some y -> e x y = false) /\
    (exists j y, i < j /\ nth_error ks j = Some y /\ e y x = true).
Proof. exact (@first_spec_thm). Qed.
Print Assumptions first_spec.

(* removing the reported reactions leaves no duplicate ... *)
Theorem remove_roundtrip : forall K (e : K -> K -> bool), equivalence e -> forall ks,
  find_dup e (remove_idxs (fst (find_dup e ks)) ks) = ([], []).
Proof. exact (@remove_roundtrip_thm). Qed.
Print Assumptions remove_roundtrip.

(* ... and one representative of every class *)
Theorem kept_represents : forall K (e : K -> K -> bool), equivalence e -> forall ks x,
  In x ks -> exists y, In y (remove_idxs (fst (find_dup e ks)) ks) /\ e x y = true.
Proof. exact (@kept_represents_thm). Qed.
Print Assumptions kept_represents.

(* reactant / product order never matters *)
Theorem order_irrelevant : forall a a' b,
  Permutation (k_reac a) (k_reac a') -> Permutation (k_prod a) (k_prod a') ->
  Permutation (k_rnames a) (k_rnames a') -> Permutation (k_pnames a) (k_pnames a') ->
  k_tmin a = k_tmin a' -> k_tmax a = k_tmax a' -> k_tminf a = k_tminf a' -> k_tmaxf a = k_tmaxf a' ->
  k_type a = k_type a' -> k_tname a = k_tname a' ->
  forall mode, mode_eqb mode a b = mode_eqb mode a' b /\ mode_eqb mode b a = mode_eqb mode b a'.
Proof. exact order_irrelevant_thm. Qed.
Print Assumptions order_irrelevant.

(* default mode: on lists without UNKNOWN-typed reactions the report is that of
   the strict equivalence (reactants, products, window, type) *)
Theorem default_on_known : forall ks, Forall known_type ks ->
  find_dup rxn_eqb ks = find_dup rxn_eqb_strict ks /\ equivalence rxn_eqb_strict.
Proof. exact default_on_known_thm. Qed.
Print Assumptions default_on_known.

(* default mode in general: Reaction.__eq__ treats UNKNOWN as a wildcard, is not
   transitive, and the report depends on the order of the list *)
Theorem default_refuted :
  exists a b c, rxn_eqb a b = true /\ rxn_eqb b c = true /\ rxn_eqb a c = false /\
    fst (find_dup rxn_eqb [a; b; c]) = [1] /\ fst (find_dup rxn_eqb [b; a; c]) = [1; 2].
Proof. exact default_refuted_thm. Qed.
Print Assumptions default_refuted.

(* the dictionary of find_duplicate_reaction looks an entry up by hash first:
   reactions that compare equal (default and brief mode) hash alike, whatever the
   order their species were written in and whatever hash the species have *)
Theorem equal_reactions_hash_alike : forall (h : nat -> nat) a b,
  (rxn_eqb a b = true -> rxn_hash h a = rxn_hash h b) /\
  (brief_eqb a b = true -> rxn_hash h a = rxn_hash h b).
Proof. exact eq_same_hash_lemma. Qed.
Print Assumptions equal_reactions_hash_alike.

(* tie to the current /repo (probe regenerated on every run): two equal reactions
   written with different electron spellings hash alike *)
Theorem live_hash_spelling_independent : reaction_hash_spelling_independent = true.
Proof. reflexivity. Qed.
Print Assumptions live_hash_spelling_independent.
