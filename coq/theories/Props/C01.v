(** C01 — the generated ODE right-hand side is the mass-action law of the input
    network.  Property theorems only; every proof is [exact <lemma>]. *)
From Coq Require Import List Arith Bool String ZArith Ring InitialRing.
From Naunet Require Import Lib.ListX Model.OdeGen Proofs.OdeRefine Proofs.OdeSem.
Import ListNotations.

Section AnyRing.
Variable R : Type.
Variables (rO rI : R) (radd rmul rsub : R -> R -> R) (ropp : R -> R).
Hypothesis Rth : ring_theory rO rI radd rmul rsub ropp (@eq R).

Notation env := (env R).
Notation ev := (ev_eqn R rO rI radd rmul ropp).
Notation ma := (ma_sum R rO rI radd rmul rsub).
Notation mods := (mod_sum R rO rI radd rmul ropp).
Notation therm := (therm_sum R rO rI radd rmul).

(* species rows: for every network, every species slot s and every valuation of
   the rate coefficients and abundances, the emitted sum evaluates to
     sum_l (count s in products_l - count s in reactants_l) * k_l * prod y(reactants_l)
   (+ the ODE-modifier terms targeting s) *)
Theorem rhs_mass_action : forall (E : env) (i : ode_input) (s : nat),
  wf_input i -> s < i_nspec i ->
  ev E (rhs_row i s) = radd (ma E s 0 (i_rxns i)) (mods E s (i_mods i)).
Proof. exact (rhs_species_row R rO rI radd rmul rsub ropp Rth). Qed.

(* a species that takes part in no reaction (and no modifier) gets the literal 0.0 *)
Theorem unreacting_zero : forall (i : ode_input) (s : nat),
  wf_input i -> s < i_nspec i ->
  Forall (fun r => count Nat.eqb s (reac r) = 0 /\ count Nat.eqb s (prod r) = 0) (i_rxns i) ->
  Forall (fun m => m_target m <> s) (i_mods i) ->
  rhs_row i s = [].
Proof. exact rhs_unreacting. Qed.

(* temperature row: sum of heating terms minus sum of cooling terms; the template
   text wraps it as (gamma - 1.0) * ( . ) / kerg / npar  (rhs_wrapped) *)
Theorem thermal_eq : forall (E : env) (i : ode_input),
  wf_input i -> has_thermal i = true ->
  ev E (rhs_row i (i_nspec i))
  = rsub (therm E (e_kh R E) 0 (i_heat i)) (therm E (e_kc R E) 0 (i_cool i))
  /\ rhs_wrapped i (i_nspec i) = true
  /\ (forall s, s < i_nspec i -> rhs_wrapped i s = false).
Proof. exact (rhs_thermal_row_full R rO rI radd rmul rsub ropp Rth). Qed.
End AnyRing.

Print Assumptions rhs_mass_action.
Print Assumptions unreacting_zero.
Print Assumptions thermal_eq.

(* the generated additions are exactly those of the assembly loops (refinement) *)
Theorem assembly_refines : forall i : ode_input,
  st_rhs (ode_terms i) = apply_adds (rhs_adds i) (repeat [] (n_eqns i)) /\
  st_jac (ode_terms i) = apply_adds (jac_of (n_eqns i) (rhs_adds i)) (repeat [] (n_eqns i * n_eqns i)).
Proof. exact ode_terms_adds. Qed.
Print Assumptions assembly_refines.

(* non-vacuity: H + H -> H2 ; H2 + CO -> H + H + CO (catalyst) ; a three-body
   reaction and an isolated species, evaluated over Z *)
Theorem example_network_Z : c01_example_statement.
Proof. exact c01_example_proof. Qed.
Print Assumptions example_network_Z.
