(** C01 — the generated ODE right-hand side is the mass-action law of the input
    network.  Property theorems only; every proof is [exact <lemma>]. *)
From Coq Require Import List Arith Bool String ZArith Ring InitialRing.
From Coq Require Import Ascii.
From Naunet Require Import Lib.Sexp Lib.ListX Lib.PyStr Model.CExpr Model.OdeGen Model.OdeText Proofs.OdeRefine Proofs.OdeSem Proofs.OdeTextProofs.
From NaunetGen Require Import Tables.
Import ListNotations.

Section AnyRing.
Variable R : Type.
Variables (rO rI : R) (radd rmul rsub : R -> R -> R) (ropp : R -> R).
Hypothesis Rth : ring_theory rO rI radd rmul rsub ropp (@eq R).

Notation env := (env R).
Notation ev := (ev_eqn R rO rI radd rmul ropp).
Notation ma := (ma_sum R rO rI radd rmul rsub).
Notation mods := (mod_sum R rO rI radd rmul ropp).
Notation therm := (therm_sum R rO rI radd rmul).

(* species rows: for every network, every species slot s and every valuation of
   the rate coefficients and abundances, the emitted sum evaluates to
     sum_l (count s in products_l - count s in reactants_l) * k_l * prod y(reactants_l)
   (+ the ODE-modifier terms targeting s) *)
Theorem rhs_mass_action : forall (E : env) (i : ode_input) (s : nat),
  wf_input i -> s < i_nspec i ->
  ev E (rhs_row i s) = radd (ma E s 0 (i_rxns i)) (mods E s (i_mods i)).
Proof. exact (rhs_species_row R rO rI radd rmul rsub ropp Rth). Qed.

(* a species that takes part in no reaction (and no modifier) gets the literal 0.0 *)
Theorem unreacting_zero : forall (i : ode_input) (s : nat),
  wf_input i -> s < i_nspec i ->
  Forall (fun r => count Nat.eqb s (reac r) = 0 /\ count Nat.eqb s (prod r) = 0) (i_rxns i) ->
  Forall (fun m => m_target m <> s) (i_mods i) ->
  rhs_row i s = [].
Proof. exact rhs_unreacting. Qed.

(* temperature row: sum of heating terms minus sum of cooling terms; the template
   text wraps it as (gamma - 1.0) * ( . ) / kerg / npar  (rhs_wrapped) *)
Theorem thermal_eq : forall (E : env) (i : ode_input),
  wf_input i -> has_thermal i = true ->
  ev E (rhs_row i (i_nspec i))
  = rsub (therm E (e_kh R E) 0 (i_heat i)) (therm E (e_kc R E) 0 (i_cool i))
  /\ rhs_wrapped i (i_nspec i) = true
  /\ (forall s, s < i_nspec i -> rhs_wrapped i s = false).
Proof. exact (rhs_thermal_row_full R rO rI radd rmul rsub ropp Rth). Qed.
End AnyRing.

Print Assumptions rhs_mass_action.
Print Assumptions unreacting_zero.
Print Assumptions thermal_eq.

(** text level.  The right-hand side is emitted as text: "0.0" followed by
    " - k[l]*y[IDX_a]*y[IDX_b]" ...  For EVERY list of terms this text, lexed with
    C's maximal munch and parsed with C precedence, is the left-nested sum of the
    products (no term is fused with its neighbour, swallowed or re-associated) ... *)
Theorem rhs_text_parses : forall ts : list tterm,
  parse (rhs_txt ts) = Some (sum_ex zero_lit (map to_sterm ts)).
Proof. exact parse_rhs. Qed.
Print Assumptions rhs_text_parses.

(* ... so the text of a species row, read as C with a[i] the i-th element of array a,
   evaluates to the mass-action law - over any commutative ring, for every network
   (rows holding a user modifier factor, which is arbitrary text, are excluded by the
   decidable premise tterms_of = Some) *)
Theorem rhs_text_is_mass_action :
  forall (R : Type) (rO rI : R) (radd rmul rsub : R -> R -> R) (ropp : R -> R),
  ring_theory rO rI radd rmul rsub ropp (@eq R) ->
  forall (E : env R) (i : ode_input) (s : nat) (ts : list tterm),
  wf_input i -> s < i_nspec i -> tterms_of (rhs_row i s) = Some ts ->
  exists e, parse (rhs_txt ts) = Some e /\
            den R rO radd rmul rsub E e =
            radd (ma_sum R rO rI radd rmul rsub E s 0 (i_rxns i)) (mod_sum R rO rI radd rmul ropp E s (i_mods i)).
Proof. intros R rO rI radd rmul rsub ropp Rth. exact (rhs_text_lemma R rO rI radd rmul rsub ropp Rth). Qed.
Print Assumptions rhs_text_is_mass_action.

(* the temperature row is written "(gamma - 1.0) * ( SUM ) / kerg / npar": for every list of
   heating / cooling terms this text parses to exactly that quotient, and SUM evaluates
   to the heating terms minus the cooling terms *)
Theorem thermal_text_is_wrapped_difference :
  forall (R : Type) (rO rI : R) (radd rmul rsub : R -> R -> R) (ropp : R -> R),
  ring_theory rO rI radd rmul rsub ropp (@eq R) ->
  forall (E : env R) (i : ode_input) (ts : list tterm),
  wf_input i -> has_thermal i = true -> tterms_of (rhs_row i (i_nspec i)) = Some ts ->
  exists inner, parse (wrapped_txt ts) = Some (wrap_ex inner) /\
    den R rO radd rmul rsub E inner =
    rsub (therm_sum R rO rI radd rmul E (e_kh R E) 0 (i_heat i)) (therm_sum R rO rI radd rmul E (e_kc R E) 0 (i_cool i)).
Proof. intros R rO rI radd rmul rsub ropp Rth. exact (thermal_text_lemma R rO rI radd rmul rsub ropp Rth). Qed.
Print Assumptions thermal_text_is_wrapped_difference.

(* non-vacuity: the text of H + H -> H2 (slot 0 = H, reaction 0) with the digits and
   macro names written out *)
Theorem rhs_text_example :
  let i := {| i_nspec := 2; i_rxns := [ {| reac := [0; 0]; prod := [1] |} ]; i_mods := []; i_heat := []; i_cool := [] |} in
  option_map (fun ts => str (flatten_with (fun n => chars (print_Z (Z.of_nat n)))
                                          (fun v => chars (if Nat.eqb v 0 then "IDX_HI" else "IDX_H2I")) (rhs_txt ts)))
             (tterms_of (rhs_row i 0))
  = Some "0.0 - k[0]*y[IDX_HI]*y[IDX_HI] - k[0]*y[IDX_HI]*y[IDX_HI]"%string.
Proof. vm_compute. reflexivity. Qed.
Print Assumptions rhs_text_example.

(* rows holding ODE-modifier terms " + (fact) * y[..]*y[..]": the factor is arbitrary user text; whenever every
   factor of the row parses on its own as a C expression (facts_parse, decidable and evaluated on every generated
   row), the whole row parses - for ALL term lists and ALL factor texts - to the left-nested sum in which each
   factor appears as the very expression it parses to (the parentheses do their job whatever the factor is: this
   rests on the frame property of the parser, Proofs/ParserFrame.pcond_frame, and of the lexer,
   Proofs/LexerFrame.lex_paren), and the value of the row is the mass-action law plus the modifier sum, each
   factor valued as its own expression (arrays and + - * read as in C, every other form by an arbitrary [atom]) *)
From Naunet Require Import Proofs.ModTextProofs.
Theorem rhs_text_with_modifiers_is_law :
  forall (R : Type) (rO rI : R) (radd rmul rsub : R -> R -> R) (ropp : R -> R),
  ring_theory rO rI radd rmul rsub ropp (@eq R) ->
  forall (E : env R) (atom : ex -> R) (i : ode_input) (s : nat) (gs : list gterm),
  atom (ELit zero_lit) = rO ->
  (forall f, e_f R E f = fact_val R rO radd rmul rsub E atom f) ->
  wf_input i -> s < i_nspec i -> gterms_of true (rhs_row i s) = Some gs -> facts_parse gs = true ->
  exists e, parse (grhs_txt gs) = Some e /\
            denG R rO radd rmul rsub E atom e =
            radd (ma_sum R rO rI radd rmul rsub E s 0 (i_rxns i)) (mod_sum R rO rI radd rmul ropp E s (i_mods i)).
Proof. intros R rO rI radd rmul rsub ropp Rth. exact (rhs_mod_text_lemma R rO rI radd rmul rsub ropp Rth). Qed.
Print Assumptions rhs_text_with_modifiers_is_law.

(* non-vacuity: a reaction term and the modifier factor "-1.0 + nH" *)
Theorem rhs_text_with_modifiers_example :
  let gs := [GR {| tt_neg := true; tt_arr := AK; tt_idx := 0; tt_spaced := false; tt_vars := [0; 1] |};
             GM true "-1.0 + nH" [1; 2]] in
  facts_parse gs = true /\
  parse (grhs_txt gs) =
  Some (EBin "+"%char
          (EBin "-"%char (ELit zero_lit)
             (EBin "*"%char (EBin "*"%char (EIdx (arr_name AK) (EMag 0)) (EIdx (arr_name AY) (EName 0))) (EIdx (arr_name AY) (EName 1))))
          (EBin "*"%char (EBin "*"%char (EBin "+"%char (ENeg (ELit (chars "1.0"))) (EVar (chars "nH")))
                            (EIdx (arr_name AY) (EName 1))) (EIdx (arr_name AY) (EName 2)))).
Proof. exact mod_row_example. Qed.
Print Assumptions rhs_text_with_modifiers_example.

(* the generated additions are exactly those of the assembly loops (refinement) *)
Theorem assembly_refines : forall i : ode_input,
  st_rhs (ode_terms i) = apply_adds (rhs_adds i) (repeat [] (n_eqns i)) /\
  st_jac (ode_terms i) = apply_adds (jac_of (n_eqns i) (rhs_adds i)) (repeat [] (n_eqns i * n_eqns i)).
Proof. exact ode_terms_adds. Qed.
Print Assumptions assembly_refines.

(* non-vacuity: H + H -> H2 ; H2 + CO -> H + H + CO (catalyst) ; a three-body
   reaction and an isolated species, evaluated over Z *)
Theorem example_network_Z : c01_example_statement.
Proof. exact c01_example_proof. Qed.
Print Assumptions example_network_Z.

(* tie to the current /repo (read from the source with ast on every run): the f-strings of _prepare_ode_content (constant text, {} for every interpolated expression; log messages left out),
   in source order, followed by the separators of its join calls - the very pieces Model/OdeText concatenates (reaction terms " - k[l]*..." / " + k[l]*...", modifier terms
   " + (fact) * ...", thermal terms with blanks around the first star in the right-hand side and a bare star in the Jacobian,
   the wrapping of the temperature row, "lhs = rhs;") *)
Theorem live_ode_text_pieces : ode_content_fstrings = (["{}[{}] = {};"; "y[IDX_{}]"; " - {}[{}]*{}"; " + {}[{}]*{}"; " - {}"; "{}[{}]"; " + {}"; "{}[{}]"; "y[IDX_{}]"; " + ({}) * {}"; " + {}"; "({})"; " + {}[{}] * {}"; " + {}"; "{}[{}]"; " - {}[{}] * {}"; " - {}"; "{}[{}]"; "ydot[IDX_{}]"; "(gamma - 1.0) * ( {} ) / kerg / npar"; "(gamma - 1.0) * ( {} ) / kerg / npar"; "{} = {};"; "{}"; "join:*"; "join:*"; "join:*"; "join:*"; "join:*"; "join:*"; "join:*"; "join:*"; "join:*"; "join:*"])%string.
Proof. reflexivity. Qed.
Print Assumptions live_ode_text_pieces.

(* ---- the batched (cuSPARSE) kernels.  FexKernel / JacKernel run one grid-stride loop per thread over the systems of a batch:
   "for (cur = tid; cur < nsystem; cur += stride)" with tid = blockIdx.x * blockDim.x + threadIdx.x, stride = blockDim.x * gridDim.x.
   Whatever the launch geometry, every system of the batch is visited by exactly one thread (the one with tid = cur mod stride), exactly
   once, and no thread leaves the batch: the per-system claim of this property is therefore a claim about the loop body alone ... *)
From Naunet Require Import Model.Batch Proofs.BatchProofs.
Theorem batch_every_system_once : forall gs n c, 0 < gs -> c < n ->
  (forall tidx, tidx < gs -> (In c (thread_visits gs n tidx) <-> tidx = c mod gs)) /\
  (forall tidx, NoDup (thread_visits gs n tidx)).
Proof. exact grid_stride_partition. Qed.
Print Assumptions batch_every_system_once.

Theorem batch_no_system_outside : forall gs n tidx c, 0 < gs -> In c (thread_visits gs n tidx) -> c < n.
Proof. exact grid_stride_in_bounds. Qed.
Print Assumptions batch_no_system_outside.

(* ... and the host run of channel C (one thread of one block) visits the same systems, 0 .. n-1 in order *)
Theorem batch_one_thread_is_every_system : forall n, thread_visits 1 n 0 = seq 0 n.
Proof. exact one_thread_visits_all_in_order. Qed.
Print Assumptions batch_one_thread_is_every_system.

(* a body that computes f of the current system gives, for system i, f of system i whatever the other systems hold; a body that takes
   its derived variables from system 0 (the defect repaired in 3a36a99: Temp = y[IDX_TGAS], npar = GetNumDens(y) read the base pointer
   of the batch) differs from it on a batch of two as soon as the result depends on those variables *)
Theorem batch_system_reads_itself : forall (S O : Type) (f : S -> O) (b : list S) (i : nat),
  nth_error (kernel_out f b) i = option_map f (nth_error b i).
Proof. exact kernel_pointwise. Qed.
Print Assumptions batch_system_reads_itself.

Theorem batch_system0_variables_refuted : forall (S O : Type) (f : S -> O) (g : S -> S -> O) (s0 s1 : S),
  (forall s, g s s = f s) -> g s0 s1 <> f s1 ->
  kernel_out_sys0 g [s0; s1] <> kernel_out f [s0; s1].
Proof. exact sys0_kernel_differs. Qed.
Print Assumptions batch_system0_variables_refuted.

(* tie to the current /repo: the loop skeleton of both kernels as the templates write it (local names made canonical) and the
   strides applied to the system index *)
Theorem live_kernel_skeletons : kernel_skeletons =
  [("FexKernel", ("cur=tid;cur<nsystem;cur+=stride", ["NEQUATIONS"]));
   ("JacKernel", ("cur=tid;cur<nsystem;cur+=stride", ["NEQUATIONS"; "NNZ"]))]%string.
Proof. reflexivity. Qed.
Print Assumptions live_kernel_skeletons.
