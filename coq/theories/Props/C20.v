(** C20 — Project configuration round trip: what is configured is what is rendered.
    Property theorems only. *)
From Coq Require Import List Arith Bool String Ascii.
From Naunet Require Import Lib.ListX Lib.PyStr Model.Config Model.Decode Proofs.DecodeProofs Proofs.ConfigProofs.
From NaunetGen Require Import Tables.
Import ListNotations.
Open Scope string_scope.

(* every network description whose values hold no separator of their field, no blank at either end
   and no substring "null" reaches the configuration exactly as it was written on the command line:
   element and pseudo-element lists, replacements, symbols, allowed and extra species, binding
   energies and yields, files and formats, grain model, thermal processes, shielding, rate modifiers,
   solver selection *)
Theorem options_roundtrip : forall c, wf_cfg c -> init_config true (print_opts c) = Some c.
Proof. exact options_roundtrip_lemma. Qed.
Print Assumptions options_roundtrip.

(* the pieces, usable separately *)
Theorem list_option_roundtrip : forall l, Forall item_ok l -> parse_list (comma l) = l.
Proof. exact parse_list_comma. Qed.
Print Assumptions list_option_roundtrip.

Theorem table_option_roundtrip : forall sep b l, Forall (entry_ok sep b) l -> keys_fresh l ->
  parse_dict sep b (comma (map (kv (sep_str sep)) l)) = Some l.
Proof. exact parse_dict_comma. Qed.
Print Assumptions table_option_roundtrip.

Theorem rate_modifier_roundtrip : forall l, Forall (entry_ok ":"%char true) l -> keys_fresh l ->
  parse_rate_mods (map (kv ":") l) = Some l.
Proof. exact parse_rate_mods_kv. Qed.
Print Assumptions rate_modifier_roundtrip.

(* tie to the current /repo: the configuration writes the bulk prefix it is given *)
Theorem bulk_prefix_written : config_bulk_key_ok = true.
Proof. reflexivity. Qed.
Print Assumptions bulk_prefix_written.

(* non-vacuity and the separator behaviour, by computation *)
Definition o0 : opts :=
  {| o_name := "proj"; o_description := "a test"; o_loading := ""; o_elements := "e, H, He, C, O"; o_pseudo := "CR,PHOTON";
     o_replacement := "HE:He, E:e"; o_surface := "#"; o_bulk := "@"; o_allowed := "H,H2, CO"; o_extra := "";
     o_binding := "#CO=1150.0,#H2O=5700"; o_yield := ""; o_grain_symbol := "GRAIN"; o_grain_model := "hh93";
     o_files := "a.kida,b.umist"; o_formats := "kida,umist"; o_heating := ""; o_cooling := "CIC_HI"; o_shielding := "CO: VB88Table";
     o_rate_mods := ["3: 1.0e-10 * zeta"; "7:0.0"]; o_ode_mods := ["H:-2.0 * k[0],[H H];H2:k[0],[H H]"];
     o_solver := "cvode"; o_device := "cpu"; o_method := "sparse" |}.
Theorem example_parse :
  option_map (fun c => (c_elements c, c_replacement c, c_binding c, c_shielding c, c_rate_mods c,
                        map (fun m => (om_key m, om_factors m, om_reactants m)) (c_ode_mods c))) (init_config true o0) =
  Some (["e"; "H"; "He"; "C"; "O"], [("HE", "He"); ("E", "e")], [("#CO", "1150.0"); ("#H2O", "5700")], [("CO", "VB88Table")],
        [("3", "1.0e-10 * zeta"); ("7", "0.0")], [("H", ["-2.0 * k[0]"], [["H"; "H"]]); ("H2", ["k[0]"], [["H"; "H"]])]).
Proof. vm_compute. reflexivity. Qed.
Print Assumptions example_parse.

(* known findings: every option value loses the substring "null"; a rate-modifier value holding a
   colon (a C conditional) is cut at the second colon *)
Theorem null_substring_refuted : opt_value "annulled" = "aned" /\ parse_list (opt_value "nullnet.kida") = ["net.kida"].
Proof. vm_compute. split; reflexivity. Qed.
Print Assumptions null_substring_refuted.

Theorem rate_modifier_colon_refuted :
  parse_rate_mods ["3:Tgas > 100.0 ? 1.0e-9 : 0.0"] = Some [("3", "Tgas > 100.0 ? 1.0e-9")].
Proof. vm_compute. reflexivity. Qed.
Print Assumptions rate_modifier_colon_refuted.

(** ODE modifiers included: the --ode-modifier text written for a list of
    modifiers (distinct species, every item free of the separators : , ; [ ] and
    with blank-free dependency names) is parsed back to exactly that list ... *)
From Naunet Require Import Proofs.ConfigOde.

Theorem ode_modifiers_roundtrip : forall ms, ode_ok ms ->
  parse_ode_mods [join ";"%char (flat_map print_om ms)] [] = Some ms.
Proof. exact parse_ode_mods_print_lemma. Qed.
Print Assumptions ode_modifiers_roundtrip.

(* ... and the whole description, ODE modifiers included, survives `naunet init` *)
Theorem options_roundtrip_full : forall c,
  wf_cfg (with_ode c []) -> ode_ok (c_ode_mods c) ->
  no_null (join ";"%char (flat_map print_om (c_ode_mods c))) ->
  init_config true (print_opts c) = Some c.
Proof. exact options_roundtrip_full_lemma. Qed.
Print Assumptions options_roundtrip_full.

(* non-vacuity: two modifiers, one with two terms, meet [ode_ok] *)
Ltac no_sep := let H := fresh in intro H; simpl in H; repeat (destruct H as [H|H]; [discriminate|]); exact H.
Theorem ode_modifiers_example :
  let ms := [ {| om_key := "H2"; om_factors := ["-2.0 * k[0]"; "zeta"]; om_reactants := [["H"; "H"]; ["H2"]] |};
              {| om_key := "CO"; om_factors := ["1.5"]; om_reactants := [["C"; "O"; "e-"]] |} ] in
  ode_ok ms /\
  join ";"%char (flat_map print_om ms) = "H2:-2.0 * k[0],[H H];H2:zeta,[H2];CO:1.5,[C O e-]".
Proof.
  split; [|vm_compute; reflexivity].
  split.
  - repeat constructor; simpl; intuition discriminate.
  - repeat constructor; simpl; try discriminate; try no_sep.
Qed.
Print Assumptions ode_modifiers_example.

(** solver selection: what `naunet init` stores is the method that was asked for, or (when none was given) the
    first method of the table entry - an unsupported combination is refused, never replaced; for EVERY table *)
Theorem selection_kept_or_refused : forall tbl solver device method,
  match select_method tbl solver device method with
  | SelKept m => method = Some m /\ exists devs choices, alookup solver tbl = Some devs /\ alookup device devs = Some choices /\ In m choices
  | SelDefault m => method = None /\ exists devs choices, alookup solver tbl = Some devs /\ alookup device devs = Some choices /\ hd_error choices = Some m
  | SelRefused => True
  end.
Proof.
  intros tbl solver device method. unfold select_method.
  destruct (alookup solver tbl) as [devs|] eqn:Hs; [|exact I].
  destruct (alookup device devs) as [choices|] eqn:Hd; [|exact I].
  destruct method as [m|].
  - destruct (existsb (String.eqb m) choices) eqn:He; [|exact I].
    split; [reflexivity|]. exists devs, choices. repeat split; auto.
    apply existsb_exists in He. destruct He as (x & Hin & Hx). apply String.eqb_eq in Hx. subst x. exact Hin.
  - destruct choices as [|c cs]; [exact I|]. split; [reflexivity|]. exists devs, (c :: cs). repeat split; auto.
Qed.
Print Assumptions selection_kept_or_refused.

(* on the table read from /repo's init.py on this run: the supported selections are kept, the others refused *)
Theorem live_selection_table :
  map (fun t : string * string * string => select_method init_allowed_methods (fst (fst t)) (snd (fst t)) (Some (snd t)))
      [("cvode", "cpu", "dense"); ("cvode", "cpu", "sparse"); ("cvode", "gpu", "cusparse"); ("odeint", "cpu", "rosenbrock4");
       ("cvode", "cpu", "cusparse"); ("cvode", "gpu", "sparse"); ("cvode", "cpu", "Sparse"); ("odeint", "cpu", "dense"); ("lsoda", "cpu", "dense")]
  = [SelKept "dense"; SelKept "sparse"; SelKept "cusparse"; SelKept "rosenbrock4"; SelRefused; SelRefused; SelRefused; SelRefused; SelRefused]
  /\ select_method init_allowed_methods "cvode" "cpu" None = SelDefault "dense".
Proof. split; reflexivity. Qed.
Print Assumptions live_selection_table.
