(** C05 — Gas-phase rate coefficients follow each database's published rate law.
    Property theorems only.  Every statement holds for ANY interpretation of the
    literals, identifiers and library functions of the emitted C text that gives
    "0.0" the value 0, pow(x, 0) the value 1 and exp(0) the value 1 - in particular for
    the real exp and power functions (last theorem) - for every value of |alpha|,
    |beta|, |gamma| and every one of the 4 x 4 x 4 sign/zero classes (+, -, 0.0, -0.0)
    of the three coefficients. *)
From Coq Require Import List Arith Bool String Ascii ZArith Reals.
From Naunet Require Import Lib.ListX Lib.PyStr Model.CExpr Model.RateGas Model.Decode
     Proofs.RateSem Proofs.RateKida Proofs.RateUmist Proofs.RateLeeds Proofs.RateUcl Proofs.RateValid Proofs.ReplaceBridge
     Wire.WDecode Wire.WRate.
From NaunetGen Require Import Tables.
Import ListNotations.
Open Scope R_scope.

Definition interp_ok (litv : list ascii -> R) (fn : list ascii -> list R -> R) : Prop :=
  litv ["0"; "."; "0"]%char = 0 /\ (forall x, fn ["p"; "o"; "w"]%char [x; 0] = 1) /\ fn ["e"; "x"; "p"]%char [0] = 1.

(* KIDA formulae 1-5; formula 6 and unknown formulae are refused *)
Theorem kida_laws : forall litv var fn mag idx nm, interp_ok litv fn -> forall ka kb kc,
  let al := cval mag ka 0 in let be := cval mag kb 1 in let ga := cval mag kc 2 in
  sem litv var fn mag idx nm (kida_rate ka kb kc 1) = Some (law_cosmicray var al) /\
  sem litv var fn mag idx nm (kida_rate ka kb kc 2) = Some (law_photo var fn al ga) /\
  sem litv var fn mag idx nm (kida_rate ka kb kc 3) = Some (law_arrhenius litv var fn al be ga) /\
  sem litv var fn mag idx nm (kida_rate ka kb kc 4) = Some (law_ionpol1 litv var fn al be ga) /\
  sem litv var fn mag idx nm (kida_rate ka kb kc 5) = Some (law_ionpol2 litv var fn al be ga) /\
  kida_rate ka kb kc 6 = inl RNotImplemented /\
  (forall f, (f <? 1)%Z || (6 <? f)%Z = true -> kida_rate ka kb kc f = inl RUnknown).
Proof.
  intros litv var fn mag idx nm (H0 & Hp & He) ka kb kc al be ga.
  split. apply kida1_lemma; assumption.
  split. apply kida2_lemma; assumption.
  split. apply kida3_lemma; assumption.
  split. apply kida4_lemma; assumption.
  split. apply kida5_lemma; assumption.
  exact (kida_refuses_lemma ka kb kc).
Qed.
Print Assumptions kida_laws.

(* UMIST: two-body, photo-process, cosmic-ray proton (alpha), cosmic-ray photon *)
Theorem umist_laws : forall litv var fn mag idx nm, interp_ok litv fn -> forall ka kb kc,
  let al := cval mag ka 0 in let be := cval mag kb 1 in let ga := cval mag kc 2 in
  sem litv var fn mag idx nm (umist ka kb kc (Some 100%Z)) = Some (law_arrhenius litv var fn al be ga) /\
  sem litv var fn mag idx nm (umist ka kb kc (Some 102%Z)) = Some (law_photo var fn al ga) /\
  sem litv var fn mag idx nm (umist ka kb kc (Some 101%Z)) = Some al /\
  sem litv var fn mag idx nm (umist ka kb kc (Some 120%Z)) = Some (law_crphot litv var fn "1" al be ga) /\
  umist ka kb kc None = inl RUnknown.
Proof.
  intros litv var fn mag idx nm (H0 & Hp & He) ka kb kc al be ga.
  split. apply umist_tb_lemma; assumption.
  split. apply umist_ph_lemma; assumption.
  split. apply umist_cp_lemma; assumption.
  split. apply umist_cr_lemma; assumption.
  exact (umist_refuses_lemma ka kb kc).
Qed.
Print Assumptions umist_laws.

(* Leeds gas-phase types 1-4, 11, 12 (with the self-shielding factor when the class appends it) *)
Theorem leeds_laws : forall litv var fn mag idx nm, interp_ok litv fn -> forall ka kb kc,
  let al := cval mag ka 0 in let be := cval mag kb 1 in let ga := cval mag kc 2 in
  let zrel := (V var "zeta_cr" + V var "zeta_xr") / V var "zism" in
  let crp := al * zrel * F2 fn "pow" (T var / Lt litv "300.0") be * ga / (Lt litv "1.0" - V var "omega") in
  sem litv var fn mag idx nm (leeds_rate ka kb kc 1 "") = Some (law_arrhenius litv var fn al be ga) /\
  sem litv var fn mag idx nm (leeds_rate ka kb kc 2 "") = Some (al * (V var "zeta_cr" + V var "zeta_xr") / V var "zism") /\
  sem litv var fn mag idx nm (leeds_rate ka kb kc 3 "") = Some crp /\
  sem litv var fn mag idx nm (leeds_rate ka kb kc 4 "") = Some (V var "G0" * law_photo var fn al ga) /\
  sem litv var fn mag idx nm (leeds_rate ka kb kc 4 "GetShieldingFactor(IDX_COI, h2col, cocol, Tgas, 0)") =
    Some (V var "G0" * law_photo var fn al ga * shield_call litv var fn "IDX_COI" "cocol" "0") /\
  sem litv var fn mag idx nm (leeds_rate ka kb kc 11 "") = Some crp /\
  sem litv var fn mag idx nm (leeds_rate ka kb kc 12 "") = Some (V var "G0" * law_photo var fn al ga).
Proof.
  intros litv var fn mag idx nm (H0 & Hp & He) ka kb kc al be ga zrel crp.
  split. apply leeds1_lemma; assumption.
  split. apply leeds2_lemma; assumption.
  split. apply leeds3_lemma; assumption.
  split. apply leeds4_lemma; assumption.
  split. apply leeds4_shield_lemma; assumption.
  split. apply leeds11_lemma; assumption.
  apply leeds12_lemma; assumption.
Qed.
Print Assumptions leeds_laws.

(* UCLCHEM gas-phase types *)
Theorem uclchem_laws : forall litv var fn mag idx nm, interp_ok litv fn -> forall ka kb kc,
  let al := cval mag ka 0 in let be := cval mag kb 1 in let ga := cval mag kc 2 in
  sem litv var fn mag idx nm (ucl ka kb kc 100%Z false) = Some (law_arrhenius litv var fn al be ga) /\
  sem litv var fn mag idx nm (ucl ka kb kc 101%Z false) = Some (al * (V var "zeta" / V var "zism")) /\
  sem litv var fn mag idx nm (ucl ka kb kc 120%Z false) =
    Some (al * (V var "zeta" / V var "zism") * F2 fn "pow" (T var / Lt litv "300.0") be * ga / (Lt litv "1.0" - V var "omega")) /\
  sem litv var fn mag idx nm (ucl ka kb kc 102%Z false) = Some (V var "G0" * law_photo var fn al ga / Lt litv "1.7") /\
  sem litv var fn mag idx nm (ucl ka kb kc 102%Z true) =
    Some (Lt litv "2.0e-10" * V var "G0" * RateUcl.shield_call litv var fn "IDX_COI" "cocol" "1" *
          fn (chars "GetGrainScattering") [V var "Av"; V var "lambdabar"] / Lt litv "1.7").
Proof.
  intros litv var fn mag idx nm (H0 & Hp & He) ka kb kc al be ga.
  split. apply ucl_ma_lemma; assumption.
  split. apply ucl_cr_lemma; assumption.
  split. apply ucl_cp_lemma; assumption.
  split. apply ucl_ph_lemma; assumption.
  apply ucl_ph_co_lemma; assumption.
Qed.
Print Assumptions uclchem_laws.

(* the native types *)
Theorem native_laws : forall litv var fn mag idx nm, interp_ok litv fn -> forall ka kb kc,
  let al := cval mag ka 0 in let be := cval mag kb 1 in let ga := cval mag kc 2 in
  sem litv var fn mag idx nm (nat_rate true ka kb kc 100%Z) = Some (law_arrhenius litv var fn al be ga) /\
  sem litv var fn mag idx nm (nat_rate true ka kb kc 101%Z) = Some (law_cosmicray var al) /\
  sem litv var fn mag idx nm (nat_rate true ka kb kc 102%Z) = Some (law_photo var fn al ga) /\
  sem litv var fn mag idx nm (nat_rate true ka kb kc 110%Z) = Some (law_ionpol1 litv var fn al be ga) /\
  sem litv var fn mag idx nm (nat_rate true ka kb kc 111%Z) = Some (law_ionpol2 litv var fn al be ga) /\
  sem litv var fn mag idx nm (nat_rate true ka kb kc 120%Z) = Some (law_crphot litv var fn "1" al be ga).
Proof.
  intros litv var fn mag idx nm (H0 & Hp & He) ka kb kc. apply native_laws_lemma; assumption.
Qed.
Print Assumptions native_laws.

(* every emitted string is valid C: it parses and holds no fused operator such as -- *)
Theorem emitted_valid_c : forall ka kb kc,
  forallb (fun f => valid_c (kida_rate ka kb kc f)) [1; 2; 3; 4; 5; 6; 7]%Z = true /\
  forallb (fun ty => valid_c (umist_rate ka kb kc 100 102 101 120 ty)) [Some 100; Some 101; Some 102; Some 120; None]%Z = true /\
  forallb (fun rt => valid_c (leeds_rate ka kb kc rt "") &&
                     valid_c (leeds_rate ka kb kc rt "GetShieldingFactor(IDX_H2I, h2col, h2col, Tgas, 0)"))
          [1; 2; 3; 4; 5; 11; 12; 15; 16; 17; 18; 19]%Z = true /\
  forallb (fun ty => valid_c (uclchem_rate ka kb kc 100 101 120 102 ty false) && valid_c (uclchem_rate ka kb kc 100 101 120 102 ty true))
          [100; 101; 102; 120]%Z = true /\
  forallb (fun ty => valid_c (native_rate ka kb kc native_beautifies 100 101 102 110 111 120 1000 ty))
          [100; 101; 102; 110; 111; 120; 1000]%Z = true.
Proof. exact (valid_c_lemma native_beautifies eq_refl). Qed.
Print Assumptions emitted_valid_c.

(* what the sign clean-up is for: without it gamma < 0 gives "exp(--m/Tgas)", which is not C *)
Theorem unbeautified_is_not_c :
  match native_rate Pos Pos Neg false 100 101 102 110 111 120 1000 100%Z with
  | inr s => parse s = None /\ no_bad_token s = false
  | inl _ => False
  end.
Proof. exact native_unbeautified_refuted_lemma. Qed.
Print Assumptions unbeautified_is_not_c.

(* the bridge between the printed text and the atom strings the theorems above are about:
   Python's four str.replace calls on the text with the magnitudes and identifiers written out
   give the text of the model's clean-up on atom strings, as soon as every magnitude / identifier
   starts and ends with a non-sign character and holds no two adjacent signs (every repr of a
   finite float, every C identifier) *)
Theorem beautify_bridge : forall mag name s, atoms_ok mag name s ->
  flatten_with mag name (beautify s) = py_beautify (flatten_with mag name s).
Proof. exact beautify_bridge_lemma. Qed.
Print Assumptions beautify_bridge.

Theorem repr_shapes_are_atoms :
  forallb (fun t => atom_ok (chars t))
    ["1e-10"; "2.5e-09"; "0.5"; "1.23e+300"; "5e-324"; "123456789.123"; "30450.0"; "Tgas"; "eb_GCOI"; "gdens2"; "zeta_cr"]%string = true /\
  forallb (fun t => atom_ok (chars t)) ["-1.0"; "1e--5"; "inf-"; ""]%string = false.
Proof. vm_compute. split; reflexivity. Qed.
Print Assumptions repr_shapes_are_atoms.

(* tie to the current /repo: the type codes used above are those of the live enum, and the
   native class passes its string through the sign clean-up *)
Theorem live_codes :
  map rt ["GAS_TWOBODY"; "GAS_COSMICRAY"; "GAS_PHOTON"; "GAS_KIDA_IP1"; "GAS_KIDA_IP2"; "GAS_UMIST_CRPHOT"; "DUMMY"]%string
  = [100; 101; 102; 110; 111; 120; 1000]%Z /\ native_beautifies = true.
Proof. split; reflexivity. Qed.
Print Assumptions live_codes.

(* non-vacuity: the real exponential and power functions are such an interpretation *)
Theorem real_interpretation_ok :
  interp_ok (fun s => if list_eqb Ascii.eqb s ["0"; "."; "0"]%char then 0 else 1)
            (fun f args => match args with
                           | [x] => if list_eqb Ascii.eqb f ["e"; "x"; "p"]%char then exp x else 0
                           | [x; y] => if list_eqb Ascii.eqb f ["p"; "o"; "w"]%char then Rpower x y else 0
                           | _ => 0
                           end).
Proof.
  unfold interp_ok. simpl. repeat split; auto.
  - intro x. unfold Rpower. rewrite Rmult_0_l. apply exp_0.
  - apply exp_0.
Qed.
Print Assumptions real_interpretation_ok.

(** ** tie by translation (regenerated on every run): harness/gen_ratesrc.py translates the five rateexpr()
    methods of /repo into coq/gen/RateLive.v, branch by branch; the translated branches ARE the templates of
    the model (by computation), and the model functions the law theorems above are about return, at the key of
    every text-yielding branch, the beautified text of that branch.  A change to a rateexpr() method therefore
    changes RateLive.v and the first theorem is re-checked against what the code says now. *)
From NaunetGen Require Import RateLive.
From Naunet Require Import Model.RateSrc Proofs.RateSrcSpec.
Close Scope R_scope.
Theorem live_rate_sources : forall ka kb kc,
  kida_src_branches ka kb kc = kida_expected ka kb kc /\
  umist_src_branches ka kb kc = umist_expected ka kb kc /\
  leeds_src_branches ka kb kc = leeds_expected ka kb kc /\
  uclchem_src_branches ka kb kc = uclchem_expected ka kb kc /\
  native_src_branches ka kb kc = native_expected ka kb kc /\
  (* the three coefficients are alpha, beta, gamma and every method ends with the sign clean-up *)
  kida_src_bind = abc_bind [("formula", "self.formula")]%string /\
  umist_src_bind = abc_bind [("rtype", "self.reaction_type")]%string /\
  leeds_src_bind = abc_bind [("rtype", "self.rtype"); ("re1", "self.reactants[0]");
                             ("re2", "self.reactants[1] if len(self.reactants) > 1 else None")]%string /\
  uclchem_src_bind = abc_bind [("rtype", "self.reaction_type"); ("zeta", "f'(zeta / zism)'"); ("re1", "self.reactants[0]")]%string /\
  native_src_bind = abc_bind [("rtype", "self.reaction_type")]%string /\
  [kida_src_tail; umist_src_tail; leeds_src_tail; uclchem_src_tail; native_src_tail] = repeat std_tail 5.
Proof. intros ka kb kc. repeat split; reflexivity. Qed.
Print Assumptions live_rate_sources.

Theorem rate_models_are_source_branches : forall ka kb kc,
  agrees (kida_rate ka kb kc) [Some 1; Some 2; Some 3; Some 4; Some 5; Some 6; Some 7]%Z (kida_expected ka kb kc) /\
  agrees (fun z => umist_rate ka kb kc 100 102 101 120 (Some z)) [Some 100; Some 102; Some 101; Some 120; Some 0]%Z (umist_expected ka kb kc) /\
  agrees (fun z => leeds_rate ka kb kc z "")
         [Some 1; Some 2; Some 3; None; Some 5; None; None; None; None; None; Some 11; None; None; None; Some 15; None; Some 0]%Z
         (leeds_expected ka kb kc) /\
  agrees (fun z => uclchem_rate ka kb kc 100 101 120 102 z false)
         [Some 100; Some 101; Some 120; None; None; None; None; None; None; Some 0]%Z (uclchem_expected ka kb kc) /\
  agrees (native_rate ka kb kc true 100 101 102 110 111 120 1000)
         [Some 100; Some 101; Some 102; Some 110; Some 111; Some 120; None; Some 1000; Some 0]%Z (native_expected ka kb kc).
Proof.
  intros ka kb kc. split. apply kida_model_is_branches. split. apply umist_model_is_branches.
  split. apply leeds_model_is_branches. split. apply uclchem_model_is_branches. apply native_model_is_branches.
Qed.
Print Assumptions rate_models_are_source_branches.
