(** C17 — Code generation is a deterministic function of the network description.
    Property theorems only.  A Gallina function is deterministic by construction, so the theorems
    are about what the CODE can depend on besides the description: the iteration order of hash
    sets, and the process-global tables left behind by networks built earlier. *)
From Coq Require Import List Arith Bool String Permutation.
From Naunet Require Import Lib.ListX Model.Index Model.Globals Proofs.IndexProofs Proofs.GlobalsProofs.
From NaunetGen Require Import Tables.
Import ListNotations.
Open Scope string_scope.

(* the species order - hence every index, every equation and every Jacobian entry - does not depend
   on the order in which a hash set hands out its members (any hash seed) *)
Theorem hash_order_irrelevant : forall sp sp' rs, Permutation sp sp' ->
  species_order sp rs = species_order sp' rs.
Proof. exact species_order_canonical_lemma. Qed.
Print Assumptions hash_order_irrelevant.

(* a description that carries its own element lists is rendered with exactly those lists, whatever
   networks were built, edited or rendered earlier in the process *)
Theorem explicit_description_frame : forall de dp d ds1 ds2,
  nd_elements d <> [] \/ nd_pseudo d <> [] ->
  tables_seen de dp ds1 d = tables_seen de dp ds2 d /\ tables_seen de dp ds1 d = (nd_elements d, nd_pseudo d).
Proof. exact explicit_frame_lemma. Qed.
Print Assumptions explicit_description_frame.

(* known finding: a description that relies on the default lists inherits the lists of the network
   built before it (with the live defaults of /repo) ... *)
Theorem default_description_leak_refuted :
  tables_seen default_elements default_pseudoelements [] plain = (default_elements, default_pseudoelements) /\
  tables_seen default_elements default_pseudoelements [custom] plain = (["H"; "C"; "O"], ["CR"]) /\
  tables_seen default_elements default_pseudoelements [] plain <> tables_seen default_elements default_pseudoelements [custom] plain.
Proof. apply default_leak_lemma. vm_compute. discriminate. Qed.
Print Assumptions default_description_leak_refuted.

(* ... and user binding energies are only ever added to: an earlier network's values stay visible *)
Theorem binding_energy_leak_refuted :
  binding_seen [] plain "#CO" = None /\ binding_seen [custom] plain "#CO" = Some "9999.0".
Proof. exact binding_leak_lemma. Qed.
Print Assumptions binding_energy_leak_refuted.
