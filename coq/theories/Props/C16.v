(** C16 — Renormalisation restores the reference elemental abundances.
    Property theorems only.  [M i j] and [ab' k] are the VALUES of the emitted matrix
    entries and of the emitted per-species update, for arbitrary real abundances ab, an
    arbitrary solution vector r and hydrogen-nuclei total Hn. *)
From Coq Require Import List Arith Bool ZArith QArith Reals Qreals Lra.
From Naunet Require Import Lib.ListX Model.Renorm Proofs.RenormProofs.
From NaunetGen Require Import Tables.
Import ListNotations.
Open Scope R_scope.

Definition sp_ (sps : list rsp) (k : nat) : rsp := nth k sps dsp.
Definition electrons_carry_no_element (sps : list rsp) : Prop :=
  forall k i, (k < List.length sps)%nat -> r_elec (sp_ sps k) = true -> cnt (sp_ sps k) i = 0%Z.
Lemma masses_nonzero (sps : list rsp) :
  forall k, (k < List.length sps)%nat -> r_elec (sp_ sps k) = false -> Q2R (weight (r_mass (sp_ sps k))) <> 0.
Proof. intros k _ _. apply weight_nonzero. Qed.

(* if r solves the generated linear system M r = ref then, after the generated update, the total
   of every element is Hn x ref_i: its abundance relative to hydrogen nuclei is the reference ratio
   (the species' weight - its mass number, or 1 for a dust grain, which has none - cancels between
   matrix and factor and is never zero: no assumption on the masses) *)
Theorem renorm_restores : forall elA sps ab r Hn ref,
  electrons_carry_no_element sps -> Hn <> 0 ->
  (forall i, (i < List.length elA)%nat ->
     sumf (fun j => M elA sps ab Hn i j * r j) (List.length elA) = ref i) ->
  forall i, (i < List.length elA)%nat -> total sps (ab' elA sps ab r) i = Hn * ref i.
Proof. intros elA sps ab r Hn ref He HH Hs i Hi. exact (renorm_restores_lemma elA sps ab r Hn He ref HH (masses_nonzero sps) Hs i Hi). Qed.
Print Assumptions renorm_restores.

(* electrons are left untouched *)
Theorem electrons_untouched : forall elA sps ab r k, r_elec (sp_ sps k) = true -> ab' elA sps ab r k = ab k.
Proof. intros elA sps ab r k H. exact (electron_untouched_lemma elA sps ab r k H). Qed.
Print Assumptions electrons_untouched.

(* identity: with mass numbers that are the sum of their elements', r = 1 solves the system exactly
   when the totals already match, and r = 1 changes no abundance *)
Theorem renorm_identity : forall elA sps ab r Hn,
  electrons_carry_no_element sps -> Hn <> 0 ->
  (forall k, (k < List.length sps)%nat -> r_elec (sp_ sps k) = false ->
     Q2R (weight (r_mass (sp_ sps k))) = sumf (fun j => IZR (cnt (sp_ sps k) j) * Q2R (weight (nth j elA 0%Q))) (List.length elA)) ->
  (forall j, r j = 1) ->
  (forall k, (k < List.length sps)%nat -> ab' elA sps ab r k = ab k) /\
  (forall i, (i < List.length elA)%nat -> Hn * sumf (fun j => M elA sps ab Hn i j * r j) (List.length elA) = total sps ab i).
Proof.
  intros elA sps ab r Hn He HH Hc Hr. pose proof (masses_nonzero sps) as Hm. split.
  - intros k Hk. exact (identity_lemma elA sps ab r Hc Hm Hr k Hk).
  - intros i Hi. exact (ones_solve_lemma elA sps ab r Hn He Hc HH Hm Hr i Hi).
Qed.
Print Assumptions renorm_identity.

(* non-vacuity: H, O, H2, H2O, OH, e-  (elements H and O, masses 1 and 16) *)
Definition ex_sps : list rsp :=
  [ {| r_cnt := [1; 0]%Z; r_mass := 1; r_elec := false |}; {| r_cnt := [0; 1]%Z; r_mass := 16; r_elec := false |};
    {| r_cnt := [2; 0]%Z; r_mass := 2; r_elec := false |}; {| r_cnt := [2; 1]%Z; r_mass := 18; r_elec := false |};
    {| r_cnt := [1; 1]%Z; r_mass := 17; r_elec := false |}; {| r_cnt := [0; 0]%Z; r_mass := 0; r_elec := true |} ]%Q.
Definition red (l : list term) : list (Q * nat * Q) := map (fun t : term => (Qred (fst (fst t)), snd (fst t), Qred (snd t))) l.
Theorem example_terms :
  red (matrix_entry [1; 16]%Q ex_sps 0 1) = [(32 # 1, 3%nat, 18 # 1); (16 # 1, 4%nat, 17 # 1)]%Q /\
  option_map red (factor_entry [1; 16]%Q (nth 3 ex_sps dsp)) = Some [(2 # 1, 0%nat, 18 # 1); (16 # 1, 1%nat, 18 # 1)]%Q /\
  factor_entry [1; 16]%Q (nth 5 ex_sps dsp) = None.
Proof. vm_compute. repeat split; reflexivity. Qed.
Print Assumptions example_terms.

(* dust grains: a grain is an "element" and a species without mass number; both get the weight 1 *)
Theorem grain_terms :
  let g := {| r_cnt := [0; 1]%Z; r_mass := 0; r_elec := false |} in
  red (matrix_entry [1; 0]%Q [g] 1 1) = [(1 # 1, 0%nat, 1 # 1)]%Q /\
  option_map red (factor_entry [1; 0]%Q g) = Some [(1 # 1, 1%nat, 1 # 1)]%Q.
Proof. vm_compute. split; reflexivity. Qed.
Print Assumptions grain_terms.

(** text level.  The matrix entries are written "0.0 + q * ab[IDX_k] / d / Hnuclei + ...",
    the factors "q * rptr[IDX_ELEM_j] / d + ...".  For EVERY list of terms these texts, lexed
    and parsed as C, are the left-nested sums of the quotients, and with the printed numbers
    read back they have the values the theorems above are about (ev_matrix_entry, ev_factor). *)
From Naunet Require Import Model.CExpr Model.OdeText Model.SumText Model.RenormText Proofs.SumTextProofs Proofs.RenormTextProofs.

Theorem matrix_text_is_entry : forall ab rv Hn hn (l : list Renorm.term),
  parse (matrix_entry_txt hn (atoms_from 0 l)) = Some (gsum_ex (SLit zero_lit) (map (mterm_more hn) (atoms_from 0 l))) /\
  denR ab rv Hn hn (magv 0 l) (gsum_ex (SLit zero_lit) (map (mterm_more hn) (atoms_from 0 l))) = ev_matrix_entry ab Hn l.
Proof. exact matrix_text_value. Qed.
Print Assumptions matrix_text_is_entry.

Theorem factor_text_is_factor : forall ab rv Hn hn (t : Renorm.term) (r : list Renorm.term),
  match atoms_from 0 (t :: r) with
  | a0 :: ar =>
      parse (gsum_txt true (fterm_smd a0) (map (fun u => (false, fterm_smd u)) ar))
        = Some (gsum_ex (fterm_smd a0) (map (fun u => (false, fterm_smd u)) ar)) /\
      denR ab rv Hn hn (magv 0 (t :: r)) (gsum_ex (fterm_smd a0) (map (fun u => (false, fterm_smd u)) ar))
        = ev_factor rv (Some (t :: r))
  | [] => False
  end.
Proof. exact factor_text_value. Qed.
Print Assumptions factor_text_is_factor.

(* any sum of products / quotients of atomic operands written by the generator parses to
   the left-nested expression (the general statement behind the two above) *)
Theorem sums_of_quotients_parse : forall sp x ms, lit_ok x -> Forall (fun m => lit_ok (snd m)) ms ->
  parse (gsum_txt sp x ms) = Some (gsum_ex x ms).
Proof. exact parse_gsum. Qed.
Print Assumptions sums_of_quotients_parse.

(* tie to the current /repo (read from the source with ast on every run): the two f-strings of _prepare_renorm_content - the
   matrix term  (ci*cj*w_j) * ab[IDX_k] / w_k / Hnuclei  and the factor term  (c*w_j) * rptr[IDX_ELEM_j] / w_k  of Model/RenormText *)
From Coq Require Import String.
Theorem live_renorm_text_pieces : renorm_content_fstrings =
  (["{} * ab[IDX_{}] / {} / Hnuclei"; "{} * rptr[IDX_ELEM_{}] / {}"; "join: + "; "join: + "])%string.
Proof. reflexivity. Qed.
Print Assumptions live_renorm_text_pieces.
