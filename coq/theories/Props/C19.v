(** C19 — Solve integrates exactly the requested interval or reports failure.
    Property theorems only.  The integrator is any script of outcomes obeying CVODE's contract
    (a failing call returns a negative flag and the time it reached); tout(level, step, dt) is
    dt * g level step for ANY g whose last sub-step of every level is the whole remaining span. *)
From Coq Require Import List Arith Bool ZArith QArith.
From Naunet Require Import Lib.ListX Model.Solve Proofs.SolveProofs.
From NaunetGen Require Import Tables.
Import ListNotations.
Open Scope Q_scope.

(* whatever sequence of failures occurs, success means the state advanced over exactly dt:
   no part of the interval skipped or integrated twice across the recovery levels *)
Theorem solve_exact : forall g, (forall level, g level (10 * level)%nat == 1) ->
  forall dt y0 cs rs, script_ok cs ->
  let '(res, yf, _, _, _) := solve g dt y0 cs rs in
  res = Success -> yf == y0 + dt.
Proof. exact solve_exact_lemma. Qed.
Print Assumptions solve_exact.

(* a failure is reported as failure - never as success - with the initial state logged *)
Theorem failure_logged : forall g dt y0 cs rs,
  let '(res, _, _, _, logged) := solve g dt y0 cs rs in
  (res = Failure -> logged = Some y0) /\ (res = Success -> logged = None).
Proof. exact failure_logged_lemma. Qed.
Print Assumptions failure_logged.

(* an unrecoverable flag is a failure at once: no retry *)
Theorem unrecoverable_fails : forall g dt y0 f rho cs rs,
  (f < 0)%Z -> (f <= -5)%Z -> f <> (-6)%Z ->
  let '(res, _, calls, reinits, _) := solve g dt y0 (CFail f rho :: cs) rs in
  res = Failure /\ calls = 1%nat /\ reinits = 0%nat.
Proof. exact unrecoverable_lemma. Qed.
Print Assumptions unrecoverable_fails.

(* a failing re-initialisation is a failure *)
Theorem reinit_failure_fails : forall g dt y0 f rho cs fr rs,
  (f < 0)%Z -> (-5 < f)%Z ->
  let '(res, _, _, _, _) := solve g dt y0 (CFail f rho :: cs) (RFail fr :: rs) in res = Failure.
Proof. exact reinit_failure_lemma. Qed.
Print Assumptions reinit_failure_fails.

(* five failed levels: failure, six integrator calls, five re-initialisations, initial state logged *)
Theorem five_levels_fail : forall g dt y0,
  let '(res, _, calls, reinits, logged) := solve g dt y0 (repeat (CFail (-1) 0) 6) [] in
  res = Failure /\ calls = 6%nat /\ reinits = 5%nat /\ logged = Some y0.
Proof. exact five_levels_lemma. Qed.
Print Assumptions five_levels_fail.

(* non-vacuity: a script that climbs two levels and then succeeds *)
Theorem ladder_example :
  let g := fun (level step : nat) => inject_Z (Z.of_nat step) / inject_Z (Z.of_nat (10 * level)) in
  let '(res, yf, calls, reinits, logged) := solve g 100 5 [CFail (-1) (3#10); CFail (-6) (1#5); CFail (-2) (9#10)] [] in
  res = Success /\ yf == 105 /\ calls = 33%nat /\ reinits = 3%nat /\ logged = None.
Proof. vm_compute. repeat split; reflexivity. Qed.
Print Assumptions ladder_example.

(* Odeint: exceeding the step budget is a failure *)
Theorem odeint_budget : forall mx n, (mx < n)%nat -> solve_odeint mx n = Failure.
Proof. exact odeint_budget_lemma. Qed.
Print Assumptions odeint_budget.

(* ... against the budget in force: after any history of Init / Reset / Solve calls, a Solve is a failure exactly when
   it needs more steps than the LAST budget given (whether through Init or through Reset) *)
Theorem odeint_budget_is_the_last_given : forall b cs n,
  last (odeint_history b (cs ++ [OSolve n])) Success = if Nat.ltb (last_budget b cs) n then Failure else Success.
Proof. exact odeint_last_budget_lemma. Qed.
Print Assumptions odeint_budget_is_the_last_given.
Theorem odeint_reset_example :
  odeint_history 0 [OInit 500; OSolve 20; OReset 5; OSolve 20; OSolve 5; OReset 700; OSolve 20]
  = [Success; Failure; Success; Success].
Proof. reflexivity. Qed.
Print Assumptions odeint_reset_example.

(* known finding: the cuSPARSE branch of Solve never looks at the integrator's flag *)
Theorem cusparse_refuted :
  exists dt y0 cs, fst (solve_cusparse dt y0 cs) = Success /\ ~ snd (solve_cusparse dt y0 cs) == y0 + dt.
Proof. exact cusparse_refuted_lemma. Qed.
Print Assumptions cusparse_refuted.

(* tie to the current /repo (read from the text of the cvode template on every run): the recovery ladder has levels 1..5
   (loop bound 6), 10 x level sub-steps per level, treats the flags -1..-4 (> -5) as "continue from where CVode stopped" and
   -6 as "restart from the initial state" - the constants of Model.Solve (levels 5, nsub = 10 * level, cvflag =? -6) *)
Theorem live_ladder_constants : solve_ladder_constants = [[6]; [10]; [-5]; [-6]]%Z.
Proof. reflexivity. Qed.
Print Assumptions live_ladder_constants.
