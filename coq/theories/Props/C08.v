(** C08 — Species names are decomposed into the right elements, charge and phase.
    Property theorems only; every proof is [exact <lemma>] or a closed computation
    on the tables regenerated from /repo. *)
From Coq Require Import List Arith Bool String Ascii ZArith NArith Sorted.
From Naunet Require Import Lib.ListX Lib.PyStr Model.Species Proofs.SpeciesProofs.
From NaunetGen Require Import Tables.
Import ListNotations.
Open Scope string_scope.

(* longest symbol first: whatever the configured tables, a longer symbol is
   always tried (and claims its characters) before any shorter one *)
Theorem components_longest_first : forall T Y,
  StronglySorted (fun a b => String.length b <= String.length a) (components T Y).
Proof. exact components_sorted_lemma. Qed.
Print Assumptions components_longest_first.

(* every match is an occurrence, in the name itself, of a configured component *)
Theorem matches_are_components : forall T Y pn, wf_tables T Y ->
  Forall (comp_match pn (components T Y)) (scan (components T Y) pn []).
Proof.
  intros T Y pn H. apply scan_matches; [exact H | split; auto | constructor].
Qed.
Print Assumptions matches_are_components.

(* characters claimed by one symbol are never read again as part of another:
   Si is never S + i, He never H + e *)
Theorem matches_disjoint : forall T Y pn, wf_tables T Y ->
  all_disjoint (scan (components T Y) pn []).
Proof. exact matches_disjoint_lemma. Qed.
Print Assumptions matches_disjoint.

(* an accepted name is covered: every character before the charge signs is a
   digit or lies inside a matched symbol *)
Theorem parse_covers : forall T Y name sp,
  parse_species T Y name = inr sp ->
  forall i c, nth_error (parsename_of (chars name)) i = Some c ->
  is_digit c = true \/
  exists m, In m (scan (components T Y) (parsename_of (chars name)) []) /\ m_start m <= i < m_end m.
Proof. exact parse_covers_lemma. Qed.
Print Assumptions parse_covers.

(* names containing a character that belongs to no configured symbol and is no
   digit (charge signs stripped) are rejected, never mis-read *)
Theorem foreign_rejected : forall T Y name, wf_tables T Y ->
  (exists i c, nth_error (parsename_of (chars name)) i = Some c /\ is_digit c = false /\
               forall comp, In comp (components T Y) -> ~ In c (unescape (chars comp))) ->
  exists e, parse_species T Y name = inl e.
Proof.
  intros T Y name Hwf (i & c & Hc & Hd & Hno).
  destruct (parse_species T Y name) as [e|sp] eqn:E; [eauto|].
  destruct (foreign_rejected_lemma T Y name sp Hwf E i c Hc) as [H|(comp & Hin & Hcc)].
  - congruence.
  - exfalso. exact (Hno comp Hin Hcc).
Qed.
Print Assumptions foreign_rejected.

(* net charge = number of trailing '+' (resp. minus number of trailing '-') *)
Theorem charge_plus : forall T Y pre x n sp,
  t_replacement T = [] -> x <> "+"%char -> x <> "-"%char ->
  parse_species T Y (str (pre ++ x :: repeat_char "+"%char n)) = inr sp ->
  is_electron sp = false -> charge sp = Z.of_nat n.
Proof. exact charge_plus_lemma. Qed.
Print Assumptions charge_plus.

Theorem charge_minus : forall T Y pre x n sp,
  t_replacement T = [] -> x <> "+"%char -> x <> "-"%char ->
  parse_species T Y (str (pre ++ x :: repeat_char "-"%char n)) = inr sp ->
  is_electron sp = false -> charge sp = (- Z.of_nat n)%Z.
Proof. exact charge_minus_lemma. Qed.
Print Assumptions charge_minus.

(** the tables of the current /repo (regenerated on every run) *)
Definition T0 := {| t_elements := default_elements; t_pseudo := default_pseudoelements; t_replacement := [] |}.
Definition Y0 := {| y_grain := "GRAIN"; y_surface := "#" |}.
Definition counts_of (name : string) : option (list (string * N)) :=
  match parse_species T0 Y0 name with inr s => Some (sp_counts s) | inl _ => None end.

Theorem default_tables_wf : wf_tables T0 Y0.
Proof. apply wf_tablesb_sound. vm_compute. reflexivity. Qed.
Print Assumptions default_tables_wf.

(* non-vacuity and the two examples of the property text, on the live tables *)
Theorem Si_not_S_i_He_not_H_e :
  counts_of "SiO" = Some [("Si", 1%N); ("O", 1%N)] /\
  counts_of "HeH+" = Some [("He", 1%N); ("H", 1%N)] /\
  counts_of "#1C2H5OH" = Some [("C", 2%N); ("H", 6%N); ("O", 1%N)] /\
  counts_of "H2xO" = None /\
  (match parse_species T0 Y0 "Si++++" with inr s => charge s | _ => 0%Z end) = 4%Z.
Proof. vm_compute. repeat split; reflexivity. Qed.
Print Assumptions Si_not_S_i_He_not_H_e.

(* known finding: the excited-state label is recorded as an element *)
Theorem star_label_refuted : counts_of "H2*" = Some [("H", 2%N); ("*", 1%N)].
Proof. vm_compute. reflexivity. Qed.
Print Assumptions star_label_refuted.
