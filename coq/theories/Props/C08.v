(** C08 — Species names are decomposed into the right elements, charge and phase.
    Property theorems only; every proof is [exact <lemma>] or a closed computation
    on the tables regenerated from /repo. *)
From Coq Require Import List Arith Bool String Ascii ZArith NArith Sorted.
From Naunet Require Import Lib.ListX Lib.PyStr Model.Species Model.SpeciesSpec Proofs.SpeciesProofs Proofs.SpeciesRoundtrip Proofs.DigitsProofs Proofs.SpeciesSurface.
From NaunetGen Require Import Tables.
Import ListNotations.
Open Scope string_scope.

(* longest symbol first: whatever the configured tables, a longer symbol is
   always tried (and claims its characters) before any shorter one *)
Theorem components_longest_first : forall T Y,
  StronglySorted (fun a b => String.length b <= String.length a) (components T Y).
Proof. exact components_sorted_lemma. Qed.
Print Assumptions components_longest_first.

(* every match is an occurrence, in the name itself, of a configured component *)
Theorem matches_are_components : forall T Y pn, wf_tables T Y ->
  Forall (comp_match pn (components T Y)) (scan (components T Y) pn []).
Proof.
  intros T Y pn H. apply scan_matches; [exact H | split; auto | constructor].
Qed.
Print Assumptions matches_are_components.

(* characters claimed by one symbol are never read again as part of another:
   Si is never S + i, He never H + e *)
Theorem matches_disjoint : forall T Y pn, wf_tables T Y ->
  all_disjoint (scan (components T Y) pn []).
Proof. exact matches_disjoint_lemma. Qed.
Print Assumptions matches_disjoint.

(* an accepted name is covered: every character before the charge signs is a
   digit or lies inside a matched symbol *)
Theorem parse_covers : forall T Y name sp,
  parse_species T Y name = inr sp ->
  forall i c, nth_error (parsename_of (chars name)) i = Some c ->
  is_digit c = true \/
  exists m, In m (scan (components T Y) (parsename_of (chars name)) []) /\ m_start m <= i < m_end m.
Proof. exact parse_covers_lemma. Qed.
Print Assumptions parse_covers.

(* names containing a character that belongs to no configured symbol and is no
   digit (charge signs stripped) are rejected, never mis-read *)
Theorem foreign_rejected : forall T Y name, wf_tables T Y ->
  (exists i c, nth_error (parsename_of (chars name)) i = Some c /\ is_digit c = false /\
               forall comp, In comp (components T Y) -> ~ In c (unescape (chars comp))) ->
  exists e, parse_species T Y name = inl e.
Proof.
  intros T Y name Hwf (i & c & Hc & Hd & Hno).
  destruct (parse_species T Y name) as [e|sp] eqn:E; [eauto|].
  destruct (foreign_rejected_lemma T Y name sp Hwf E i c Hc) as [H|(comp & Hin & Hcc)].
  - congruence.
  - exfalso. exact (Hno comp Hin Hcc).
Qed.
Print Assumptions foreign_rejected.

(* net charge = number of trailing '+' (resp. minus number of trailing '-') *)
Theorem charge_plus : forall T Y pre x n sp,
  t_replacement T = [] -> x <> "+"%char -> x <> "-"%char ->
  parse_species T Y (str (pre ++ x :: repeat_char "+"%char n)) = inr sp ->
  is_electron sp = false -> charge sp = Z.of_nat n.
Proof. exact charge_plus_lemma. Qed.
Print Assumptions charge_plus.

Theorem charge_minus : forall T Y pre x n sp,
  t_replacement T = [] -> x <> "+"%char -> x <> "-"%char ->
  parse_species T Y (str (pre ++ x :: repeat_char "-"%char n)) = inr sp ->
  is_electron sp = false -> charge sp = (- Z.of_nat n)%Z.
Proof. exact charge_minus_lemma. Qed.
Print Assumptions charge_minus.

(** the round trip.  A name is rendered from items (symbol text, digit run); when
    the rendering is [unambiguous] -- every occurrence of a configured symbol in it
    is an intended token or overlaps an intended token of a symbol tried earlier --
    the masked longest-first scan finds exactly the intended tokens ... *)
Theorem scan_exact : forall comps pn toks,
  Forall (fun c => no_blank (txt c)) comps ->
  intended comps pn toks -> unambiguous comps pn toks ->
  forall m, In m (scan comps pn []) <-> exists a, In a toks /\ m = mk a.
Proof. exact scan_exact_lemma. Qed.
Print Assumptions scan_exact.

(* ... and the whole parser is the fold of [item_step] over the items: same
   error or same element counts, surface group, grain group and (without
   renaming) name, for every table configuration and every item list *)
Theorem name_roundtrip : forall T Y name its,
  wf_tables T Y ->
  parsename_of (chars name) = render its ->
  Forall (fun it : item => In (fst it) (map txt (components T Y)) /\ fst it <> []) its ->
  unambiguous (components T Y) (render its) (positions 0 its) ->
  match items_loop T Y (([], []) :: its) st0 with
  | inl e => parse_species T Y name = inl e
  | inr st => exists sp, parse_species T Y name = inr sp /\
                sp_counts sp = p_counts st /\ sp_surface sp = p_surface st /\
                sp_grain sp = p_grain st /\ sp_symbols sp = Y /\
                (t_replacement T = [] -> sp_name sp = name)
  end.
Proof. exact name_roundtrip_lemma. Qed.
Print Assumptions name_roundtrip.

(* the premise is decidable; the harness evaluates it on every generated name *)
Theorem unambiguous_decidable : forall comps pn toks,
  unambiguousb comps pn toks = true -> unambiguous comps pn toks.
Proof. exact unambiguousb_sound. Qed.
Print Assumptions unambiguous_decidable.

(** the tables of the current /repo (regenerated on every run) *)
Definition T0 := {| t_elements := default_elements; t_pseudo := default_pseudoelements; t_replacement := [] |}.
Definition Y0 := {| y_grain := "GRAIN"; y_surface := "#" |}.
Definition counts_of (name : string) : option (list (string * N)) :=
  match parse_species T0 Y0 name with inr s => Some (sp_counts s) | inl _ => None end.

Theorem default_tables_wf : wf_tables T0 Y0.
Proof. apply wf_tablesb_sound. vm_compute. reflexivity. Qed.
Print Assumptions default_tables_wf.

(* non-vacuity and the two examples of the property text, on the live tables *)
Theorem Si_not_S_i_He_not_H_e :
  counts_of "SiO" = Some [("Si", 1%N); ("O", 1%N)] /\
  counts_of "HeH+" = Some [("He", 1%N); ("H", 1%N)] /\
  counts_of "#1C2H5OH" = Some [("C", 2%N); ("H", 6%N); ("O", 1%N)] /\
  counts_of "H2xO" = None /\
  (match parse_species T0 Y0 "Si++++" with inr s => charge s | _ => 0%Z end) = 4%Z.
Proof. vm_compute. repeat split; reflexivity. Qed.
Print Assumptions Si_not_S_i_He_not_H_e.

(* non-vacuity of the round trip on the live tables: ice ethanol in group 1 and
   doubly ionised silicon monoxide meet every premise, so the theorem (not a
   computation of the parser) gives their composition *)
Definition its_ethanol : list item :=
  [(chars "#", chars "1"); (chars "C", chars "2"); (chars "H", chars "5"); (chars "O", []); (chars "H", [])].
Definition its_sio : list item := [(chars "Si", []); (chars "O", [])].
Definition items_ok (its : list item) : bool :=
  forallb (fun it : item => memb (list_eqb Ascii.eqb) (fst it) (map txt (components T0 Y0))
                            && negb (Nat.eqb (List.length (fst it)) 0)) its
  && unambiguousb (components T0 Y0) (render its) (positions 0 its).

Lemma items_ok_sound its : items_ok its = true ->
  Forall (fun it : item => In (fst it) (map txt (components T0 Y0)) /\ fst it <> []) its /\
  unambiguous (components T0 Y0) (render its) (positions 0 its).
Proof.
  unfold items_ok. rewrite andb_true_iff. intros [H1 H2]. split.
  - apply Forall_forall. intros it Hit. rewrite forallb_forall in H1. specialize (H1 it Hit).
    apply andb_true_iff in H1. destruct H1 as [Ha Hb]. split.
    + apply (memb_In_gen (list_eqb Ascii.eqb) list_eqb_ascii_eq). exact Ha.
    + intro E. rewrite E in Hb. discriminate.
  - apply unambiguousb_sound. exact H2.
Qed.

Theorem roundtrip_instances :
  (exists sp, parse_species T0 Y0 "#1C2H5OH" = inr sp /\
     sp_counts sp = [("C", 2%N); ("H", 6%N); ("O", 1%N)] /\ sp_surface sp = Some 1%N /\ sp_grain sp = None) /\
  (exists sp, parse_species T0 Y0 "SiO++" = inr sp /\
     sp_counts sp = [("Si", 1%N); ("O", 1%N)] /\ sp_surface sp = None /\ sp_name sp = "SiO++").
Proof.
  split.
  - assert (items_ok its_ethanol = true) as H by (vm_compute; reflexivity).
    destruct (items_ok_sound _ H) as [H1 H2].
    pose proof (name_roundtrip T0 Y0 "#1C2H5OH" its_ethanol default_tables_wf eq_refl H1 H2) as R.
    assert (items_loop T0 Y0 (([], []) :: its_ethanol) st0 =
            inr {| p_counts := [("C", 2%N); ("H", 6%N); ("O", 1%N)]; p_surface := Some 1%N; p_grain := None |}) as E
      by (vm_compute; reflexivity).
    rewrite E in R. destruct R as (sp & Hp & Hc & Hs & Hg & _). exists sp. repeat split; auto.
  - assert (items_ok its_sio = true) as H by (vm_compute; reflexivity).
    destruct (items_ok_sound _ H) as [H1 H2].
    pose proof (name_roundtrip T0 Y0 "SiO++" its_sio default_tables_wf eq_refl H1 H2) as R.
    assert (items_loop T0 Y0 (([], []) :: its_sio) st0 =
            inr {| p_counts := [("Si", 1%N); ("O", 1%N)]; p_surface := None; p_grain := None |}) as E
      by (vm_compute; reflexivity).
    rewrite E in R. destruct R as (sp & Hp & Hc & Hs & Hg & _ & Hn). exists sp. repeat split; auto.
Qed.
Print Assumptions roundtrip_instances.

(** phase and gas-phase counterpart.  An ice species is written prefix + group
    digits + gas-phase name (+ charge signs); when the group is written without a
    leading zero and the prefix text does not occur again, the species is read as
    ice of that group and its gas-phase counterpart is exactly the rest of the name.
    (print_of_int_digits: Python's str(int(d)) gives d back for such digits.) *)
Theorem print_of_int_digits : forall d, canonical d -> print_N (digits_val d 0) = str d.
Proof. exact print_digits_lemma. Qed.
Print Assumptions print_of_int_digits.

Theorem ice_species_counterpart : forall T Y name d0 its chg,
  wf_tables T Y -> t_replacement T = [] ->
  y_grain Y <> "" -> y_surface Y <> "" ->
  memb String.eqb (y_surface Y) (t_pseudo T) = false ->
  chars name = (chars (y_surface Y) ++ d0 ++ render its ++ chg)%list ->
  parsename_of (chars name) = render ((chars (y_surface Y), d0) :: its) ->
  Forall (fun it : item => In (fst it) (map txt (components T Y)) /\ fst it <> []) ((chars (y_surface Y), d0) :: its) ->
  unambiguous (components T Y) (render ((chars (y_surface Y), d0) :: its)) (positions 0 ((chars (y_surface Y), d0) :: its)) ->
  group_ok d0 ->
  (forall st, ~ occ (chars (y_surface Y) ++ d0)%list (render its ++ chg)%list st) ->
  forall sp, parse_species T Y name = inr sp ->
  sp_surface sp = Some (group_of d0) /\ is_surface sp = true /\ gasname sp = str (render its ++ chg)%list.
Proof. exact surface_counterpart_lemma. Qed.
Print Assumptions ice_species_counterpart.

(* non-vacuity on the live tables: ice water in group 12, and the quirk the premise
   excludes (a group written with a leading zero is read as group 1, whose prefix text "#1" does not occur in the name: nothing is removed) *)
Theorem ice_counterpart_instances :
  (forall sp, parse_species T0 Y0 "#12H2O" = inr sp ->
     sp_surface sp = Some 12%N /\ is_surface sp = true /\ gasname sp = "H2O") /\
  (match parse_species T0 Y0 "#01CO" with inr sp => gasname sp | inl _ => "" end) = "#01CO".
Proof.
  split.
  - intros sp Hsp.
    set (its := [(chars "H", chars "2"); (chars "O", [])] : list item).
    assert (items_ok ((chars "#", chars "12") :: its) = true) as H by (vm_compute; reflexivity).
    destruct (items_ok_sound _ H) as [H1 H2].
    assert (Hno : no_occb (chars "#" ++ chars "12")%list (render its ++ [])%list = true) by (vm_compute; reflexivity).
    pose proof (ice_species_counterpart T0 Y0 "#12H2O" (chars "12") its [] default_tables_wf eq_refl
                  ltac:(discriminate) ltac:(discriminate) eq_refl eq_refl eq_refl H1 H2
                  ltac:(right; split; [reflexivity | discriminate]) (no_occb_sound _ _ Hno) sp Hsp) as R.
    exact R.
  - vm_compute. reflexivity.
Qed.
Print Assumptions ice_counterpart_instances.

(* known finding: the excited-state label is recorded as an element *)
Theorem star_label_refuted : counts_of "H2*" = Some [("H", 2%N); ("*", 1%N)].
Proof. vm_compute. reflexivity. Qed.
Print Assumptions star_label_refuted.
