(** C04 — balanced networks give element- and charge-conserving generated dynamics.
    Property theorems only. *)
From Coq Require Import List Arith Bool String ZArith Ring.
From Coq Require Import NArith.
From Naunet Require Import Lib.ListX Lib.PyStr Model.OdeGen Model.Species Model.Physics Proofs.OdeRefine Proofs.OdeSem Proofs.PhysicsProofs.
Import ListNotations.

Section AnyRing.
Variable R : Type.
Variables (rO rI : R) (radd rmul rsub : R -> R -> R) (ropp : R -> R).
Hypothesis Rth : ring_theory rO rI radd rmul rsub ropp (@eq R).

(* for any weight per species slot (count of an element, or the charge): if every
   reaction carries the same total weight on both sides, the weighted sum of the
   generated species derivatives is identically zero - for every abundance vector
   and every value of the rate coefficients *)
Theorem conservation : forall (E : env R) (w : nat -> R) (i : ode_input),
  wf_input i -> i_mods i = [] ->
  Forall (balanced R rO radd w) (i_rxns i) ->
  sumn R rO radd (i_nspec i)
       (fun s => rmul (w s) (ev_eqn R rO rI radd rmul ropp E (rhs_row i s))) = rO.
Proof. exact (OdeSem.conservation R rO rI radd rmul rsub ropp Rth). Qed.

(* the general identity behind it: the weighted sum of the rows is the weighted sum
   of the emitted additions *)
Theorem weighted_sum_of_rows : forall (E : env R) (w : nat -> R) (m : nat) (a : adds),
  sumn R rO radd m (fun s => rmul (w s) (ev_eqn R rO rI radd rmul ropp E (at_pos s a)))
  = wsum_adds R rO rI radd rmul ropp E w m a.
Proof. exact (weighted_rows R rO rI radd rmul rsub ropp Rth). Qed.

(* the helper clause: the statement GetElementAbund returns for an element is, for
   every abundance vector, the count-weighted sum of the abundances of all species
   (ofN is the value of the literal "n.0"; absent elements count 0) ... *)
Theorem helper_element_total : forall (ofN : N -> R) (y : nat -> R) (el : string) (sp : list hspec),
  ofN 0%N = rO ->
  ev_terms R rO radd rmul ofN y (elem_terms el sp) = wsum R rO radd rmul ofN y el 0 sp.
Proof. intros ofN y el sp H0. exact (element_abund_lemma R rO rI radd rmul rsub ropp Rth ofN H0 y el sp). Qed.

(* ... and the mantle density is the sum over the ice species *)
Theorem helper_mantle : forall (y : nat -> R) (sp : list hspec),
  ev_mantle R rO radd y (mantle_terms sp) = msum R rO radd y 0 sp.
Proof. intros y sp. exact (mantle_lemma R rO rI radd rmul rsub ropp Rth y sp). Qed.
End AnyRing.
Print Assumptions helper_element_total.
Print Assumptions helper_mantle.

(* the emitted terms: exactly the species holding the element, each once, with its count *)
Theorem helper_terms_exact : forall el sp n i,
  In (n, i) (elem_terms el sp) <->
  exists s, nth_error sp i = Some s /\ n = count_of el (h_counts s) /\ n <> 0%N.
Proof. exact element_terms_exact_lemma. Qed.
Print Assumptions helper_terms_exact.

(* non-vacuity: H, H2, #H2O, CO over Z: the H total is y0 + 2 y1 + 2 y2 *)
Theorem helper_example :
  let sp := [ {| h_alias := "HI"; h_counts := [("H"%string, 1%N)]; h_surface := false |};
              {| h_alias := "H2I"; h_counts := [("H"%string, 2%N)]; h_surface := false |};
              {| h_alias := "GH2OI"; h_counts := [("H"%string, 2%N); ("O"%string, 1%N)]; h_surface := true |};
              {| h_alias := "COI"; h_counts := [("C"%string, 1%N); ("O"%string, 1%N)]; h_surface := false |} ] in
  elem_text "H" sp = "return 1.0*y[IDX_HI] + 2.0*y[IDX_H2I] + 2.0*y[IDX_GH2OI] + 0.0;"%string /\
  elem_terms "O" sp = [(1%N, 2); (1%N, 3)] /\ mantle_terms sp = [2].
Proof. vm_compute. repeat split; reflexivity. Qed.
Print Assumptions helper_example.
Print Assumptions conservation.
Print Assumptions weighted_sum_of_rows.

(* non-vacuity: H2 + CO+ -> HCO+ + H with weights = number of H atoms, and charge *)
Theorem example_balanced_Z : c04_example_statement.
Proof. exact c04_example_proof. Qed.
Print Assumptions example_balanced_Z.
