(** C04 — balanced networks give element- and charge-conserving generated dynamics.
    Property theorems only. *)
From Coq Require Import List Arith Bool String ZArith Ring.
From Naunet Require Import Lib.ListX Model.OdeGen Proofs.OdeRefine Proofs.OdeSem.
Import ListNotations.

Section AnyRing.
Variable R : Type.
Variables (rO rI : R) (radd rmul rsub : R -> R -> R) (ropp : R -> R).
Hypothesis Rth : ring_theory rO rI radd rmul rsub ropp (@eq R).

(* for any weight per species slot (count of an element, or the charge): if every
   reaction carries the same total weight on both sides, the weighted sum of the
   generated species derivatives is identically zero - for every abundance vector
   and every value of the rate coefficients *)
Theorem conservation : forall (E : env R) (w : nat -> R) (i : ode_input),
  wf_input i -> i_mods i = [] ->
  Forall (balanced R rO radd w) (i_rxns i) ->
  sumn R rO radd (i_nspec i)
       (fun s => rmul (w s) (ev_eqn R rO rI radd rmul ropp E (rhs_row i s))) = rO.
Proof. exact (OdeSem.conservation R rO rI radd rmul rsub ropp Rth). Qed.

(* the general identity behind it: the weighted sum of the rows is the weighted sum
   of the emitted additions *)
Theorem weighted_sum_of_rows : forall (E : env R) (w : nat -> R) (m : nat) (a : adds),
  sumn R rO radd m (fun s => rmul (w s) (ev_eqn R rO rI radd rmul ropp E (at_pos s a)))
  = wsum_adds R rO rI radd rmul ropp E w m a.
Proof. exact (weighted_rows R rO rI radd rmul rsub ropp Rth). Qed.
End AnyRing.
Print Assumptions conservation.
Print Assumptions weighted_sum_of_rows.

(* non-vacuity: H2 + CO+ -> HCO+ + H with weights = number of H atoms, and charge *)
Theorem example_balanced_Z : c04_example_statement.
Proof. exact c04_example_proof. Qed.
Print Assumptions example_balanced_Z.
