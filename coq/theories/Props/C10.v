(** C10 — Generated sources are self-contained: every symbol used is declared first.
    Property theorems only.  The unit modelled is EvalRates (where every parameter, derived
    quantity, constant, index macro and helper function of a rate expression must be in scope);
    the other diagnostics of a compiler are observed with g++, not proved. *)
From Coq Require Import List Arith Bool String Ascii.
From Naunet Require Import Lib.ListX Lib.PyStr Model.CExpr Model.Symbols Proofs.SymbolsProofs.
Import ListNotations.
Open Scope string_scope.

(* the ordered merge of all components' symbols holds each symbol exactly once ... *)
Theorem collect_nodup : forall k comps, NoDup (map fst (collect k comps)).
Proof. exact collect_nodup_lemma. Qed.
Print Assumptions collect_nodup.

(* ... and every symbol any component registers *)
Theorem collect_complete : forall k comps c sym,
  In c comps -> In sym (map fst (by_kind k c)) -> In sym (map fst (collect k comps)).
Proof. exact collect_complete_lemma. Qed.
Print Assumptions collect_complete.

(* a unit that passes the closure test declares every name exactly once and before its first use:
   each derived quantity uses only fixed names, macros, constants, parameters and EARLIER derived
   quantities; each rate expression only declared names *)
Theorem unit_closed_sound : forall macros comps uses, unit_closed macros comps uses = true ->
  let consts := map fst (collect KConst comps) in
  let params := map fst (collect KParam comps) in
  let ders := collect KDerived comps in
  let scope0 := (fixed_names ++ macros ++ consts ++ params)%list in
  NoDup (consts ++ params ++ map fst ders) /\
  (forall i k v, nth_error ders i = Some (k, v) -> forall x, In x (idents v) -> In x (scope0 ++ map fst (firstn i ders))) /\
  (forall u x, In u uses -> In x (idents u) -> In x (scope0 ++ map fst ders)).
Proof. exact unit_closed_sound_lemma. Qed.
Print Assumptions unit_closed_sound.

(* non-vacuity: a UCLCHEM-like registry over a network that holds H2 is closed; the same registry over
   a network without H2 is not (known finding: H2shielding always uses IDX_H2I); a derived quantity
   that uses a later one is not *)
Definition ucl_reg : registry :=
  [ {| rv_name := "temperature"; rv_symbol := "Tgas"; rv_value := ""; rv_kind := KParam |};
    {| rv_name := "visual_extinction"; rv_symbol := "Av"; rv_value := ""; rv_kind := KParam |};
    {| rv_name := "ism_cosmic_ray_ionization_rate"; rv_symbol := "zism"; rv_value := "1.3e-17"; rv_kind := KConst |};
    {| rv_name := "H2_column_density"; rv_symbol := "h2col"; rv_value := "0.5*1.59e21*Av"; rv_kind := KDerived |};
    {| rv_name := "H2_shielding_factor"; rv_symbol := "H2shielding"; rv_value := "GetShieldingFactor(IDX_H2I, h2col, h2col, Tgas, 1)"; rv_kind := KDerived |} ].
Theorem closure_examples :
  unit_closed ["IDX_HI"; "IDX_H2I"] [ucl_reg; ucl_reg] ["1.0e-10 * exp(-2.0*Av) * H2shielding / zism"] = true /\
  unit_closed ["IDX_HI"] [ucl_reg] ["1.0e-10 * zism"] = false /\
  undeclared ["IDX_HI"] [ucl_reg] ["1.0e-10 * zism"] = ["IDX_H2I"] /\
  unit_closed [] [[ {| rv_name := "a"; rv_symbol := "a"; rv_value := "b * 2.0"; rv_kind := KDerived |};
                    {| rv_name := "b"; rv_symbol := "b"; rv_value := "1.0"; rv_kind := KDerived |} ]] [] = false.
Proof. vm_compute. repeat split; reflexivity. Qed.
Print Assumptions closure_examples.

(** tie to the current /repo: the EvalRates units of the bundled fixture networks,
    regenerated on every run (index macros in scope, the symbol registries of every
    reaction and dust model, the rate assignments), decided by computation: each is
    closed, except the two recorded findings - the UCLCHEM format without H2 in the
    network (H2shielding uses IDX_H2I) *)
From NaunetGen Require Import Units.

Definition kind_of (s : string) : vkind :=
  if String.eqb s "const" then KConst else if String.eqb s "param" then KParam else KDerived.
Definition to_registry (r : list (string * string * string * string)) : registry :=
  map (fun x => match x with (n, sy, v, k) => {| rv_name := n; rv_symbol := sy; rv_value := v; rv_kind := kind_of k |} end) r.
Definition unit_verdict (u : string * (list string * list (list (string * string * string * string)) * list string)) : string * bool :=
  match u with (label, (macros, regs, uses)) => (label, unit_closed macros (map to_registry regs) uses) end.

Theorem live_units_closed :
  map unit_verdict live_units =
  [("minimal.kida", true); ("minimal.umist", true); ("minimal.krome", true);
   ("minimal.leeds + hh93", true); ("minimal.leeds + hh93i", true);
   ("minimal.ucl + rr07 + H2", true); ("minimal.ucl + rr07x + H2", true);
   ("minimal.ucl + rr07 without H2", false)].
Proof. vm_compute. reflexivity. Qed.
Print Assumptions live_units_closed.
