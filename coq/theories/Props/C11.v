(** C11 — Grain-surface rate coefficients follow the selected dust model.
    Property theorems only.  As in C05 every statement holds for any interpretation of the
    literals, identifiers and library functions (with "0.0" read as 0), for every printed
    value of the species' mass number (mag 3 / 6), binding energy (mag 4 / 7) and yield
    (mag 5), every |alpha| and each of its four sign/zero classes; registry symbols are
    opaque identifier atoms, so the statements hold whatever names the reaction format and
    the grain group give them. *)
From Coq Require Import List Arith Bool String Ascii ZArith Reals.
From Naunet Require Import Lib.ListX Lib.PyStr Model.CExpr Model.RateGas Model.RateGrain
     Proofs.RateSem Proofs.RateGrainSem Wire.WGrain.
From NaunetGen Require Import Tables.
Import ListNotations.
Open Scope R_scope.

Definition lit0_ok (I : interp) : Prop := i_lit I ["0"; "."; "0"]%char = 0.

(* accretion (depletion) *)
Theorem depletion_laws : forall I, lit0_ok I -> forall ka,
  let al := cval (i_mag I) ka 0 in
  gsem I (base_depletion ka) =
    Some (al * sigma I * i_nm I Ngdens * vth I) /\
  gsem I (hh93_depletion ka) =
    Some (i_nm I Nopt_frz * al * sigma I * i_nm I Ngdens * vth I) /\
  gsem I (rr07_depletion ka DNeutral) =
    Some (head_rr07 I al * F1 (i_fn I) "sqrt" (Tgas I / A1 I)) /\
  gsem I (rr07_depletion ka DIon) =
    Some (head_rr07 I al * F1 (i_fn I) "sqrt" (Tgas I / A1 I) * coulomb I) /\
  gsem I (rr07_depletion ka DElectron) =
    Some (head_rr07 I al * coulomb I).
Proof.
  intros I H0 ka al.
  split. apply base_depletion_lemma; assumption.
  split. apply hh93_depletion_lemma; assumption.
  apply rr07_depletion_lemma; assumption.
Qed.
Print Assumptions depletion_laws.

(* thermal, photo-, cosmic-ray and H2-formation induced desorption *)
Theorem desorption_laws : forall I, lit0_ok I ->
  gsem I hh93_thermal =
    Some (i_nm I Nopt_thd * i_nm I Ncov * (i_nm I NnMono * i_nm I Ndensites) * nu0 I
          * F1 (i_fn I) "exp" (- (eb I / Tdust I))) /\
  gsem I hh93_photon =
    Some (i_nm I Nopt_uvd * i_nm I Ncov *
          (i_nm I Nradfield * V (i_var I) "habing" * F1 (i_fn I) "exp" (- (i_nm I Nav * Lt (i_lit I) "3.02")) + V (i_var I) "crphot" * zrel I)
          * Y1 I * i_nm I NnMono * i_nm I Ngarea) /\
  gsem I hh93_cosmicray =
    Some (i_nm I Nopt_crd * i_nm I Ncov * (i_nm I Nduty * i_nm I NnMono * i_nm I Ndensites) * zrel I * nu0 I
          * F1 (i_fn I) "exp" (- (eb I / i_nm I NTcr))) /\
  gsem I rr07_photon =
    Some (guarded_law I (i_nm I Neb_uvd)
            (i_nm I Nopt_uvd * Lt (i_lit I) "4.875e3" * i_nm I Ngxsec *
             ((zrel I + i_nm I Nradfield / i_nm I Nuvcreff * F1 (i_fn I) "exp" (- (Lt (i_lit I) "1.8" * i_nm I Nav))) * Y1 I / i_nm I Nmant))) /\
  gsem I rr07_cosmicray =
    Some (guarded_law I (i_nm I Neb_crd)
            (i_nm I Nopt_crd * Lt (i_lit I) "4.0" * pi_ I * i_nm I Ncrdeseff * zrel I * (Lt (i_lit I) "1.64e-4" * i_nm I Ngxsec / i_nm I Nmant))) /\
  gsem I rr07_h2 =
    Some (guarded_law I (i_nm I Neb_h2d)
            (i_nm I Nopt_h2d * i_nm I Nh2deseff * i_nm I Nh2form * i_idx I (chars "y") (V (i_var I) "IDX_HI") / i_nm I Nmant)) /\
  gsem I rr07x_thermal =
    Some (if Rlt_le_dec (Lt (i_lit I) "1e-30") (i_nm I Nmantabund)
          then i_nm I Nopt_thd_x * nu0 I * (Lt (i_lit I) "2.0" * i_nm I Ndensites) * F1 (i_fn I) "exp" (- (eb I / Tdust I))
          else 0).
Proof.
  intros I H0.
  split. apply hh93_thermal_lemma; assumption.
  split. apply hh93_photon_lemma; assumption.
  split. apply hh93_cosmicray_lemma; assumption.
  split. apply rr07_photon_lemma; assumption.
  split. apply rr07_cosmicray_lemma; assumption.
  split. apply rr07_h2_lemma; assumption.
  apply rr07x_thermal_lemma; assumption.
Qed.
Print Assumptions desorption_laws.

(* grain recombination and electron capture *)
Theorem charge_laws : forall I, lit0_ok I -> forall ka,
  gsem I hh93_ecapture =
    Some (sigma I * F1 (i_fn I) "sqrt" (Lt (i_lit I) "8.0" * kerg I * Tgas I / pi_ I / amu I / V (i_var I) "meu")) /\
  gsem I (hh93_recombination ka) =
    Some (cval (i_mag I) ka 0 * sigma I * i_nm I Ngdens
          * F1 (i_fn I) "sqrt" (Lt (i_lit I) "8.0" * kerg I * Tgas I / (pi_ I * amu I * A1 I))
          * (Lt (i_lit I) "1.0" + e2 I / i_nm I NrG / kerg I / Tgas I)
          * (Lt (i_lit I) "1.0" + F1 (i_fn I) "sqrt" (Lt (i_lit I) "2.0" * e2 I / (i_nm I NrG * kerg I * Tgas I + Lt (i_lit I) "2.0" * e2 I)))).
Proof.
  intros I H0 ka.
  split. apply hh93_ecapture_lemma; assumption. apply hh93_recombination_lemma; assumption.
Qed.
Print Assumptions charge_laws.

(* surface two-body reactions (tunnelling enters for H / H2 partners) and reactive desorption *)
Theorem surface_laws : forall I, lit0_ok I -> forall ka,
  let al := cval (i_mag I) ka 0 in
  let th := thermal_hop I in let tu := tunnel_hop I in
  let kt := kappa_th I al in let kq := kappa_qu I al in
  let tail := encounter I * i_nm I Ncov * i_nm I Ncov in
  gsem I (hh93_surface ka HNone) =
    Some (kt * (th (E1 I) (A1 I) + th (E2 I) (A2 I)) * encounter I * i_nm I Ncov * i_nm I Ncov) /\
  gsem I (hh93_surface ka HBoth) =
    Some (fmax_ I kt kq * (fmax_ I (th (E1 I) (A1 I)) (tu (E1 I) (A1 I)) + fmax_ I (th (E2 I) (A2 I)) (tu (E2 I) (A2 I)))
          * encounter I * i_nm I Ncov * i_nm I Ncov) /\
  gsem I (hh93_surface ka HFirst) =
    Some (fmax_ I kt kq * (fmax_ I (th (E1 I) (A1 I)) (tu (E1 I) (A1 I)) + th (E2 I) (A2 I))
          * encounter I * i_nm I Ncov * i_nm I Ncov) /\
  gsem I (hh93_surface ka HSecond) =
    Some (fmax_ I kt kq * (th (E1 I) (A1 I) + fmax_ I (th (E2 I) (A2 I)) (tu (E2 I) (A2 I)))
          * encounter I * i_nm I Ncov * i_nm I Ncov) /\
  (forall v x, gsem I (hh93_surface ka v) = Some x ->
               gsem I (hh93_reactive ka v) = Some (V (i_var I) "opt_rcd" * V (i_var I) "branch" * x)).
Proof.
  intros I H0 ka al th tu kt kq tail.
  split. apply hh93_surface_none_lemma; assumption.
  split. apply hh93_surface_both_lemma; assumption.
  split. apply hh93_surface_first_lemma; assumption.
  split. apply hh93_surface_second_lemma; assumption.
  intros v x. apply hh93_reactive_lemma.
Qed.
Print Assumptions surface_laws.

(* requests a model does not implement are refused; everything emitted is valid C *)
Theorem dispatch_refuses_or_valid : grain_valid = true.
Proof. exact grain_valid_lemma. Qed.
Print Assumptions dispatch_refuses_or_valid.

(* tie to the current /repo: which builders return NotImplemented (probed on every run) *)
Theorem live_dispatch :
  forallb (fun row : string * string * bool =>
             let '(m, p, b) := row in
             match get_model m, lookup p proc_names with
             | Some m, Some p => Bool.eqb (implemented m p) b
             | _, _ => false
             end) grain_dispatch = true /\
  List.length grain_dispatch = 45%nat.
Proof. split; vm_compute; reflexivity. Qed.
Print Assumptions live_dispatch.

(* binding-energy look-up order: explicit value, then the user table, then RATE12 *)
Theorem binding_lookup_order : forall (X : Type) (truthy : X -> bool) (e u r : option X),
  first_truthy truthy [e; u; r] =
  match e with
  | Some x => if truthy x then Some x else
      match u with Some y => if truthy y then Some y else match r with Some z => if truthy z then Some z else None | None => None end
                 | None => match r with Some z => if truthy z then Some z else None | None => None end end
  | None =>
      match u with Some y => if truthy y then Some y else match r with Some z => if truthy z then Some z else None | None => None end
                 | None => match r with Some z => if truthy z then Some z else None | None => None end end
  end.
Proof.
  intros X truthy e u r. unfold first_truthy. simpl.
  destruct e as [x|]; [destruct (truthy x)|]; destruct u as [y|]; try destruct (truthy y); destruct r as [z|]; try destruct (truthy z); reflexivity.
Qed.
Print Assumptions binding_lookup_order.

(** ** tie by translation (regenerated on every run): harness/gen_grainsrc.py evaluates the rate_* methods of the dust-model
    classes of /repo symbolically (grain symbols looked up on live instances) into coq/gen/GrainLive.v; the translated
    strings ARE the templates of the model the law theorems above are about (by computation).  A change to a rate_* method
    changes GrainLive.v, and this theorem is re-checked against what the code says now. *)
From NaunetGen Require Import GrainLive.
Theorem live_grain_sources : forall ka,
  base_rate_depletion_src ka = base_depletion ka /\
  hh93_rate_depletion_src ka = hh93_depletion ka /\
  hh93_rate_thermal_desorption_src = hh93_thermal /\
  hh93_rate_photon_desorption_src = hh93_photon /\
  hh93_rate_cosmicray_desorption_src = hh93_cosmicray /\
  hh93_rate_electron_capture_src = hh93_ecapture /\
  hh93_rate_recombination_src ka = hh93_recombination ka /\
  hh93__rate_surface_src ka =
    [("re1.name in ['GH', 'GH2'] and re2.name in ['GH', 'GH2']", hh93_surface ka HBoth); ("re1.name in ['GH', 'GH2']", hh93_surface ka HFirst);
     ("re2.name in ['GH', 'GH2']", hh93_surface ka HSecond); ("else", hh93_surface ka HNone)]%string /\
  hh93_rate_surface_twobody_src = [N 999] /\
  hh93_rate_reactive_desorption_src = (tx "opt_rcd * branch * " ++ [N 999])%list /\
  rr07_rate_depletion_src ka =
    [("spec.is_electron", rr07_depletion ka DElectron); ("spec.charge == 0", rr07_depletion ka DNeutral); ("else", rr07_depletion ka DIon)]%string /\
  rr07_rate_photon_desorption_src = rr07_photon /\
  rr07_rate_cosmicray_desorption_src = rr07_cosmicray /\
  rr07_rate_h2_desorption_src = rr07_h2 /\
  rr07x_rate_thermal_desorption_src = rr07x_thermal /\
  (* the photodesorption yield used when the species carries none *)
  hh93_rate_photon_desorption_src_yield_default = ["0.001"]%string /\ rr07_rate_photon_desorption_src_yield_default = ["0.1"]%string /\
  base_rate_depletion_src_guards = ["reac.reaction_type != ReactionType.GRAIN_FREEZE"; "len(reac.reactants) != 1"]%string.
Proof. intro ka. repeat split; reflexivity. Qed.
Print Assumptions live_grain_sources.
