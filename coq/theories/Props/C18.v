(** C18 — Writing a network and reading it back preserves the model.
    Property theorems only. *)
From Coq Require Import List Arith Bool String Ascii ZArith Reals Permutation.
From Naunet Require Import Lib.ListX Lib.PyStr Model.Decode Model.NativeFmt Model.CExpr Model.RateGas Model.RateGrain
     Proofs.DecodeProofs Proofs.NativeProofs Proofs.RateSem Proofs.RateUmist Proofs.RateUcl Proofs.ExportLaw.
Import ListNotations.
Open Scope string_scope.

(* a written line reads back as the same reaction: index, window, type code, source tag and the
   printed alpha/beta/gamma verbatim, reactants and products in name order *)
Theorem write_read : forall pseudo r, wf pseudo r ->
  reread pseudo (fmt_native r ++ "
") = Some (canon r).
Proof. exact write_read_lemma. Qed.
Print Assumptions write_read.

(* ... with multiplicity *)
Theorem species_multiset : forall r,
  Permutation (n_reac (canon r)) (n_reac r) /\ Permutation (n_prod (canon r)) (n_prod r).
Proof. exact multiset_lemma. Qed.
Print Assumptions species_multiset.

(* the second cycle changes nothing: what is written from what was read back is the same line *)
Theorem second_cycle_identity : forall pseudo r, wf pseudo r -> fmt_native (canon r) = fmt_native r.
Proof. exact second_cycle_lemma. Qed.
Print Assumptions second_cycle_identity.

(* a whole network: the same reactions in the same order *)
Theorem file_roundtrip : forall pseudo rs, Forall (wf pseudo) rs ->
  map (reread pseudo) (write_native rs) = map (fun r => Some (canon r)) rs.
Proof. exact file_roundtrip_lemma. Qed.
Print Assumptions file_roundtrip.

(* non-vacuity: a concrete reaction meets wf, by computation of the boolean parts *)
Theorem wf_example :
  let r := {| n_idx := "7"; n_reac := ["e-"; "H3+"]; n_prod := ["H2"; "H"]; n_a := " 6.700e-08"; n_b := "-5.200e-01";
              n_c := " 0.000e+00"; n_lt := "    10.00"; n_ut := "  1000.00"; n_type := "100"; n_source := "umist" |} in
  reread ["CR"; "PHOTON"] (fmt_native r ++ "
") = Some (canon r) /\ n_reac (canon r) = ["H3+"; "e-"] /\
  fmt_native r = "7    ,         H3+,          e-,            ,           H,          H2,            ,            ,            , 6.700e-08,-5.200e-01, 0.000e+00,    10.00,  1000.00, 100,   umist".
Proof. vm_compute. repeat split; reflexivity. Qed.
Print Assumptions wf_example.

(** export + re-render: the file keeps the ReactionType code only, the re-read reaction is a
    native one.  These (format, subtype) pairs keep their law for every coefficient and every
    interpretation ... *)
Open Scope R_scope.
Theorem export_same_law : forall litv var fn mag idx nm,
  litv ["0"; "."; "0"]%char = 0 -> (forall x, fn ["p"; "o"; "w"]%char [x; 0] = 1) -> fn ["e"; "x"; "p"]%char [0] = 1 ->
  forall ka kb kc,
  let sem := sem litv var fn mag idx nm in let native := nat_rate true in
  sem (kida_rate ka kb kc 1) = sem (native ka kb kc 101%Z) /\
  sem (kida_rate ka kb kc 2) = sem (native ka kb kc 102%Z) /\
  sem (kida_rate ka kb kc 3) = sem (native ka kb kc 100%Z) /\
  sem (kida_rate ka kb kc 4) = sem (native ka kb kc 110%Z) /\
  sem (kida_rate ka kb kc 5) = sem (native ka kb kc 111%Z) /\
  sem (umist ka kb kc (Some 100%Z)) = sem (native ka kb kc 100%Z) /\
  sem (umist ka kb kc (Some 102%Z)) = sem (native ka kb kc 102%Z) /\
  sem (umist ka kb kc (Some 120%Z)) = sem (native ka kb kc 120%Z) /\
  sem (leeds_rate ka kb kc 1 "") = sem (native ka kb kc 100%Z) /\
  sem (ucl ka kb kc 100%Z false) = sem (native ka kb kc 100%Z).
Proof. intros litv var fn mag idx nm H0 Hp He ka kb kc. exact (export_same_lemma litv var fn mag idx nm H0 Hp He ka kb kc). Qed.
Print Assumptions export_same_law.

(* ... and these do not (known finding): UMIST cosmic-ray proton, Leeds types 2, 3, 4, UCLCHEM
   cosmic ray / cosmic-ray photon / photo reactions are re-read under the same type code as a
   different law; one interpretation meeting the side conditions separates them *)
Theorem export_law_refuted :
  (w_lit ["0"; "."; "0"]%char = 0 /\ (forall x, w_fn ["p"; "o"; "w"]%char [x; 0] = 1) /\ w_fn ["e"; "x"; "p"]%char [0] = 1) /\
  let wsem := sem w_lit w_var w_fn w_mag w_idx w_nm in
  wsem (umist Pos Pos Pos (Some 101%Z)) <> wsem (nat_rate true Pos Pos Pos 101%Z) /\
  wsem (leeds_rate Pos Pos Pos 2 "") <> wsem (nat_rate true Pos Pos Pos 101%Z) /\
  wsem (leeds_rate Pos Pos Pos 3 "") <> wsem (nat_rate true Pos Pos Pos 120%Z) /\
  wsem (leeds_rate Pos Pos Pos 4 "") <> wsem (nat_rate true Pos Pos Pos 102%Z) /\
  wsem (ucl Pos Pos Pos 101%Z false) <> wsem (nat_rate true Pos Pos Pos 101%Z) /\
  wsem (ucl Pos Pos Pos 120%Z false) <> wsem (nat_rate true Pos Pos Pos 120%Z) /\
  wsem (ucl Pos Pos Pos 102%Z false) <> wsem (nat_rate true Pos Pos Pos 102%Z).
Proof. split. exact witness_ok. exact export_differs_lemma. Qed.
Print Assumptions export_law_refuted.


(* tie to the current /repo (read from the source with ast on every run): the native writer pads every species name to 12
   columns in 3 + 5 slots, the index to 5, prints the coefficients with 10.3e and the window with 9.2f, the type code in 4 and
   the source tag in 8 columns, separated by commas - the layout the model's writer and the round-trip theorems are about *)
From NaunetGen Require Import Tables.
Theorem live_native_layout :
  native_format_specs =
    [("''", ">12"); ("x", ">12"); ("x", ">12"); ("self.idxfromfile", "<5"); ("self.alpha", "10.3e"); ("self.beta", "10.3e");
     ("self.gamma", "10.3e"); ("self.temp_min", "9.2f"); ("self.temp_max", "9.2f"); ("self.reaction_type", ">4"); ("self.source", ">8")]%string /\
  native_fill_slots = [3; 5]%nat /\ native_separators = [","%string].
Proof. repeat split; reflexivity. Qed.
Print Assumptions live_native_layout.
