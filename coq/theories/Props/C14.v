(** C14 — network contents stay consistent under any history of edits.
    Property theorems only. *)
From Coq Require Import List Arith Bool ZArith Permutation String.
From Naunet Require Import Lib.ListX Model.Dup Model.Network Proofs.DupProofs Proofs.NetworkProofs.
Import ListNotations.

(* after ANY sequence of operations from an empty network: the cached reactant and
   product sets are exactly those of the reactions currently held (no duplicates),
   every held reaction mentions allowed species only and every parked one mentions
   a disallowed species *)
Theorem inv_reachable : forall (a q : list nat) (ops : list op), Inv (run (empty_net a q) ops).
Proof. exact inv_reachable_lemma. Qed.
Print Assumptions inv_reachable.

Theorem inv_one_step : forall (s : net) (o : op), Inv s -> Inv (step s o).
Proof. exact inv_step. Qed.
Print Assumptions inv_one_step.

(* sources and sinks are those of the held reactions *)
Theorem source_sink_spec : forall s, Inv s -> forall x,
  (In x (sources s) <-> (exists r, In r (rl s) /\ In x (rx_reac r)) /\ ~ (exists r, In r (rl s) /\ In x (rx_prod r))) /\
  (In x (sinks s) <-> (exists r, In r (rl s) /\ In x (rx_prod r)) /\ ~ (exists r, In r (rl s) /\ In x (rx_reac r))).
Proof. exact source_sink_lemma. Qed.
Print Assumptions source_sink_spec.

(* additions: kept iff all species allowed, otherwise parked - nothing else changes *)
Theorem add_spec : forall s r,
  (allowed_ok (allowed s) r = true ->
     rl (step s (Add r)) = rl s ++ [r] /\ skipped (step s (Add r)) = skipped s) /\
  (allowed_ok (allowed s) r = false ->
     rl (step s (Add r)) = rl s /\ skipped (step s (Add r)) = skipped s ++ [r]).
Proof. exact add_spec_lemma. Qed.
Print Assumptions add_spec.

(* removals drop exactly the addressed reactions and touch nothing else *)
Theorem remove_spec : forall s,
  (forall i, i < List.length (rl s) -> rl (step s (RemoveIdx i)) = remove_nth i (rl s)) /\
  (forall l, rl (step s (RemoveIdxs l)) = remove_idxs l (rl s)) /\
  (forall r, rl (step s (RemoveInst r)) = filter (fun x => negb (rx_eqb x r)) (rl s)) /\
  (forall l, rl (step s (RemoveInsts l)) = filter (fun x => negb (existsb (rx_eqb x) l)) (rl s)) /\
  (forall o, match o with Add _ | SetAllowed _ => True | _ => skipped (step s o) = skipped s end).
Proof. exact remove_spec_lemma. Qed.
Print Assumptions remove_spec.

(* setting the allowed list re-examines every held and parked reaction; none is lost *)
Theorem set_allowed_spec : forall s a,
  rl (step s (SetAllowed a)) = filter (allowed_ok a) (rl s ++ skipped s) /\
  skipped (step s (SetAllowed a)) = filter (fun r => negb (allowed_ok a r)) (rl s ++ skipped s) /\
  allowed (step s (SetAllowed a)) = a.
Proof. exact set_allowed_spec_lemma. Qed.
Print Assumptions set_allowed_spec.

Theorem set_allowed_no_loss : forall s a,
  Permutation (rl (step s (SetAllowed a)) ++ skipped (step s (SetAllowed a))) (rl s ++ skipped s).
Proof. exact set_allowed_no_loss_lemma. Qed.
Print Assumptions set_allowed_no_loss.

(* changing the allowed list later yields the same reactions (as a multiset: the
   setter re-examines held reactions before parked ones) and the same species as
   constructing the network with that list *)
Theorem allowed_late : forall a0 a q adds,
  let late := step (run (empty_net a0 q) (map Add adds)) (SetAllowed a) in
  let ctor := run (empty_net a q) (map Add adds) in
  Permutation (rl late) (rl ctor) /\
  (forall x, In x (species_set late) <-> In x (species_set ctor)).
Proof. exact allowed_late_lemma. Qed.
Print Assumptions allowed_late.

(* de-duplication through the network leaves no duplicate (default mode, reactions
   of known type) *)
Theorem remove_dups_clean : forall s,
  Forall known_type (map rx_key (rl s)) ->
  find_dup rxn_eqb (map rx_key (rl (step s RemoveDups))) = ([], []).
Proof. exact remove_dups_lemma. Qed.
Print Assumptions remove_dups_clean.

(** ** the network-editing command: `naunet extend` is the pipeline read -> reduce-by-species -> remove-species ->
    remove-duplicate -> append steps -> re-index (Model.Network.extend) *)
(* whatever the options, the written network is consistent: its species / sources / sinks are those of its reactions *)
Theorem extend_consistent : forall reduce remove dups appends l, Inv (extend reduce remove dups appends l).
Proof. exact extend_inv_lemma. Qed.
Print Assumptions extend_consistent.

(* reduce-by-species keeps exactly the reactions all of whose species are listed, in order *)
Theorem reduce_keeps_listed_only : forall al s,
  rl (reduce_by al s) = filter (fun r => forallb (fun x => memb Nat.eqb x al) (rx_reac r ++ rx_prod r)) (rl s).
Proof. exact reduce_by_rl. Qed.
Print Assumptions reduce_keeps_listed_only.

(* an append step adds, for species of the network AS IT IS NOW (after the reductions) that have a counterpart, the
   reaction species -> counterpart, keeps every held reaction and adds nothing else *)
Theorem append_step_spec : forall f ty s r, Inv s ->
  (In r (rl s) -> In r (rl (append_by f ty s))) /\
  (In r (rl (append_by f ty s)) ->
   In r (rl s) \/
   exists x y, f x = Some y /\ r = mk_simple 0 [x] [y] ty /\
               exists r0, In r0 (rl s) /\ (In x (rx_reac r0) \/ In x (rx_prod r0))).
Proof.
  intros f ty s r HI. split.
  - apply append_by_keeps_lemma.
  - apply append_by_spec_lemma. exact HI.
Qed.
Print Assumptions append_step_spec.
