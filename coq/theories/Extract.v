(** The only file with extraction directives. *)
From Coq Require Import ExtrOcamlBasic ExtrOcamlString.
From Naunet Require Import Dispatch.
Extraction Language OCaml.
Extraction "model.ml" dispatch.
